#!/bin/sh
# dev helper: run one harness from a persistent scratch copy.  usage: dev-kani.sh <feature> <mod::harness> [extra cargo-kani args]
set -e
F=$1; H=$2; shift 2
D=/tmp/devh
mkdir -p $D
rsync -a --delete --exclude target --exclude Cargo.lock /verif/harness/ $D/h/
cp /repo/Cargo.lock $D/h/Cargo.lock
python3 -c "
import sys; sys.path.insert(0,'/verif/driver'); import gen_sources; gen_sources.generate('/repo','/verif','$D/h',0)"
cd $D/h
export CARGO_NET_OFFLINE=true RUSTFLAGS="--cfg tls_parser_verif"
ulimit -v 24000000; ulimit -s unlimited
exec cargo kani --harness "$H" --exact --target-dir $D/t-$F -Z stubbing --features "$F" "$@"
