#!/usr/bin/env python3
"""./check <Cxx> [--tier quick|thorough] | ./check --replay <path>

Decides one property of /repo's current working tree by bounded model checking (Kani/CBMC, E1)
and, for a few table-shaped pieces, the MIR->SMT encoder (E2). See /verif/DESIGN.md.

exit 0  property held on everything explored (known findings are printed as KNOWN-FINDING lines)
exit 1  a violation was found, replayed natively and reported as  VIOLATION property=<id> replay=<path>
exit 2  inconclusive (timeout, out of memory, vacuous harness, counterexample that does not replay)
"""
import argparse
import atexit
import concurrent.futures as cf
import fnmatch
import json
import os
import re
import shutil
import signal
import sys
import tempfile
import threading
import time
import zlib

HERE = os.path.dirname(os.path.abspath(__file__))
VERIF = os.path.dirname(HERE)
REPO = os.environ.get("VERIF_REPO", "/repo")
sys.path.insert(0, HERE)

import kani_run  # noqa: E402
import registry  # noqa: E402
import meta  # noqa: E402

CFG_FLAGS = {
    "default": [],
    "nostd": ["--no-default-features"],
    "serialize": ["--features", "serialize"],
}

TIER_FEATS = []
ONLY = None
_scratch_dirs = []


def _cleanup():
    for d in _scratch_dirs:
        shutil.rmtree(d, ignore_errors=True)


atexit.register(_cleanup)


def _sig(signum, _frame):
    _cleanup()
    os._exit(2)


signal.signal(signal.SIGTERM, _sig)
signal.signal(signal.SIGINT, _sig)


def log(*a):
    print(*a, flush=True)


def mk_scratch():
    base = os.environ.get("VERIF_SCRATCH") or tempfile.gettempdir()
    d = tempfile.mkdtemp(prefix="tlsverif.", dir=base)
    _scratch_dirs.append(d)
    return d


def prepare_crate(scratch, sub="h"):
    """Copy the harness crate, pin the lock file, generate data-derived sources from /repo."""
    dst = os.path.join(scratch, sub)
    shutil.copytree(os.path.join(VERIF, "harness"), dst, ignore=shutil.ignore_patterns("target", "Cargo.lock"))
    # rewrite the path dependency if a different repo root was requested
    if REPO != "/repo":
        p = os.path.join(dst, "Cargo.toml")
        s = open(p).read().replace('path = "/repo"', 'path = "%s"' % REPO)
        open(p, "w").write(s)
    shutil.copy(os.path.join(REPO, "Cargo.lock"), os.path.join(dst, "Cargo.lock"))
    try:
        import gen_sources
        gen_sources.generate(REPO, VERIF, dst, int(os.environ.get("VERIF_SEED", "0") or 0))
    except ImportError:
        pass
    return dst


def kani_cmd(h, prop_feature, target_dir, extra=()):
    cmd = ["cargo", "kani", "--harness", h.fq, "--exact", "--target-dir", target_dir, "-Z", "stubbing"]
    feats = [prop_feature] + TIER_FEATS
    if h.cfg == "serialize":
        feats.append("serialize")
    if h.cfg == "nostd":
        cmd += ["--no-default-features"]
    cmd += ["--features", ",".join(feats)]
    cmd += list(extra)
    return cmd


def warmup(crate, prop_feature, cfg, target_dir, logdir):
    """Build dependencies + all harnesses of this property once, so workers only pay for solving."""
    cmd = ["cargo", "kani", "--only-codegen", "--target-dir", target_dir, "-Z", "stubbing"]
    feats = [prop_feature] + TIER_FEATS + (["serialize"] if cfg == "serialize" else [])
    if cfg == "nostd":
        cmd += ["--no-default-features"]
    cmd += ["--features", ",".join(feats)]
    rc, out, wall, to = kani_run.run_cmd(cmd, crate, 1500, None, os.path.join(logdir, "build-%s.log" % cfg))
    ok = (rc == 0) and not to
    return ok, out, wall


def native_replay(scratch, h, prop_feature, pb, tag, watchdog=120):
    """Append the generated unit test to a copy of the crate and run it natively (cargo kani playback)."""
    crate = prepare_crate(scratch, "replay-%s-%s" % (h.name, tag))
    modfile = os.path.join(crate, "src", h.mod + ".rs")
    if getattr(h, "twin", None):
        pb = dict(pb, body=re.sub(r"concrete_playback_run\(concrete_vals, \w+\)", "concrete_playback_run(concrete_vals, %s)" % h.twin, pb["body"]))
    test = ("\n#[cfg(kani)]\nmod verif_playback {\n    #![allow(unused_imports)]\n    use super::*;\n    use alloc::vec;\n    use alloc::vec::Vec;\n"
            "    #[test]\n    fn %s() {\n%s\n    }\n}\n" % (pb["test_name"], pb["body"]))
    with open(modfile, "a") as f:
        f.write(test)
    tdir = os.environ.get("VERIF_TARGET_DIR_PLAYBACK") or os.path.join(scratch, "t-playback")
    cmd = ["cargo", "kani", "playback", "-Z", "concrete-playback"]
    feats = [prop_feature] + TIER_FEATS + (["serialize"] if h.cfg == "serialize" else [])
    if h.cfg == "nostd":
        cmd += ["--no-default-features"]
    cmd += ["--features", ",".join(feats), "--", pb["test_name"], "--exact", "--nocapture"]
    cmd[cmd.index(pb["test_name"])] = "%s::verif_playback::%s" % (h.mod, pb["test_name"])
    rc, out, wall, to = kani_run.run_cmd(cmd, crate, watchdog + 600, None,
                                         os.path.join(scratch, "logs", "replay-%s-%s.log" % (h.name, tag)),
                                         {"CARGO_TARGET_DIR": tdir})
    shutil.rmtree(crate, ignore_errors=True)
    if to:
        return "hang", out
    if re.search(r"test result: FAILED|panicked at", out) and "1 failed" in out:
        return "reproduced", out
    if re.search(r"test result: ok\. 1 passed", out):
        return "not_reproduced", out
    return "error", out


def observations_c18(scratch, logdir):
    """Compile-time facts observed while producing the encodings (not solver queries)."""
    import subprocess
    obs, viols = {}, []
    src = os.path.join(scratch, "obs-repo")
    subprocess.check_call(["rsync", "-a", "--exclude", "target", "--exclude", ".git", REPO.rstrip("/") + "/", src + "/"])
    env = dict(os.environ, CARGO_NET_OFFLINE="true", CARGO_TARGET_DIR=os.path.join(scratch, "obs-target"))
    p = subprocess.run(["cargo", "build", "--offline", "--lib", "--no-default-features", "--features", "serialize"],
                       cwd=src, env=env, stdout=subprocess.PIPE, stderr=subprocess.STDOUT, text=True)
    open(os.path.join(logdir, "obs-serialize-nostd.log"), "w").write(p.stdout)
    refused = p.returncode != 0 and "cannot be enabled when using `no_std`" in p.stdout
    obs["serialize_without_std_refused_at_compile_time"] = refused
    if p.returncode == 0:
        rp_dir = os.path.join(VERIF, "replays", "C18")
        os.makedirs(rp_dir, exist_ok=True)
        rp = os.path.join(rp_dir, "serialize-nostd-builds.json")
        json.dump({"engine": "observation", "property": "C18", "label": "C18.serialize_without_std.refused_at_compile_time",
                   "what": "cargo build --no-default-features --features serialize succeeded", "how": "cd /repo && cargo build --offline --lib --no-default-features --features serialize  (must fail)"},
                  open(rp, "w"), indent=1)
        viols.append(("C18.serialize_without_std.refused_at_compile_time", rp))
    lib = open(os.path.join(REPO, "src", "lib.rs")).read()
    obs["forbid_unsafe_code_attribute_present"] = "#![forbid(unsafe_code)]" in lib
    n_unsafe = 0
    for f in sorted(os.listdir(os.path.join(REPO, "src"))):
        if f.endswith(".rs"):
            txt = re.sub(r"//[^\n]*", "", open(os.path.join(REPO, "src", f)).read())
            n_unsafe += len(re.findall(r"\bunsafe\b", txt.replace("forbid(unsafe_code)", "")))
    obs["unsafe_tokens_in_src"] = n_unsafe
    # `#![forbid(unsafe_code)]` makes rustc reject any unsafe block at every build (including Kani's); the token count is informational
    if not obs["forbid_unsafe_code_attribute_present"]:
        rp_dir = os.path.join(VERIF, "replays", "C18")
        os.makedirs(rp_dir, exist_ok=True)
        rp = os.path.join(rp_dir, "unsafe.json")
        json.dump({"engine": "observation", "property": "C18", "label": "C18.no_unsafe_code", "what": json.dumps(obs),
                   "how": "grep -n unsafe /repo/src/*.rs"}, open(rp, "w"), indent=1)
        viols.append(("C18.no_unsafe_code", rp))
    return obs, viols


def is_default_check(label):
    return bool(re.search(r"unwinding assertion|attempt to |overflow|index out of bounds|dereference failure|panicked|assertion failed:", label))


def load_known():
    p = os.path.join(VERIF, "known_findings.json")
    if not os.path.exists(p):
        return {"findings": [], "fixed": []}
    return json.load(open(p))


def match_known(known, prop, h, label, vals):
    """A finding suppresses a failure only if property, harness glob, label and witness predicate all match."""
    for k in known.get("findings", []):
        if k["property"] != prop or not fnmatch.fnmatch(h.name, k.get("harness", "*")):
            continue
        if k["label"] != label:
            continue
        ok = True
        for idx, want in (k.get("witness") or {}).items():
            i = int(idx)
            if vals is None or i >= len(vals) or vals[i] != want:
                ok = False
        if ok:
            return k
    return None


def run_property(prop, tier, jobs, keep):
    t0 = time.time()
    seed = int(os.environ.get("VERIF_SEED", "0") or 0)
    hs = registry.harnesses(prop, tier)
    if ONLY:
        hs = [h for h in hs if ONLY in h.name]
    skipped_note = None
    if prop == "C12" and tier == "quick":
        # the frozen-snapshot harnesses pose literally the same queries as the row harnesses when the data file
        # is byte-identical to the snapshot; they are only discharged separately when the two differ
        try:
            same = open(os.path.join(REPO, "scripts", "tls-ciphersuites.txt"), "rb").read() == \
                open(os.path.join(VERIF, "oracle-data", "tls-ciphersuites.frozen.txt"), "rb").read()
        except OSError:
            same = False
        if same:
            n0 = len(hs)
            hs = [h for h in hs if not h.name.startswith("c12_frozen_")]
            skipped_note = "%d c12_frozen_* harnesses not run separately: scripts/tls-ciphersuites.txt is byte-identical to the frozen snapshot, so they coincide with c12_rows_*" % (n0 - len(hs))
    if tier == "thorough" and "thorough" not in TIER_FEATS:
        TIER_FEATS.append("thorough")
    pm = meta.META[prop]
    scratch = mk_scratch()
    logdir = os.path.join(scratch, "logs")
    os.makedirs(logdir)
    crate = prepare_crate(scratch)
    prop_feature = ",".join(sorted(set(h.mod for h in hs) | {prop.lower()}))
    results = {}
    extra_results = []   # E2 or other engines: dicts with status/evaluations
    violations = []      # (label, replay_path)
    known_hits = []
    inconclusive = []
    known = load_known()

    # ---- E2 / non-Kani parts
    if pm.get("e2") and not ONLY:
        import e2
        er = e2.run(prop, tier, REPO, VERIF, scratch, seed)
        extra_results.append(er)

    observations = None
    if pm.get("observations") and not ONLY:
        observations, oviol = observations_c18(scratch, logdir)
        violations += oviol

    # ---- E1
    cfgs = sorted(set(h.cfg for h in hs))
    tdirs = {}
    build_s = 0.0
    base = os.environ.get("VERIF_TARGET_DIR")
    for c in cfgs:
        tdirs[c] = os.path.join(base, c) if base else os.path.join(scratch, "t-" + c)

    def build_cfg(c):
        # one crate copy per configuration so that the configurations can be built in parallel
        cr = crate if c == cfgs[0] else prepare_crate(scratch, "h-" + c)
        return c, cr, warmup(cr, prop_feature, c, tdirs[c], logdir)

    crates = {}
    with cf.ThreadPoolExecutor(max_workers=len(cfgs) or 1) as ex:
        built = list(ex.map(build_cfg, cfgs))
    for c, cr, (ok, out, wall) in built:
        crates[c] = cr
        build_s = max(build_s, wall)
        if not ok:
            tail = "\n".join(out.splitlines()[-40:])
            log("BUILD FAILED for configuration %s:\n%s" % (c, tail))
            if prop == "C18" and re.search(r"cannot be (shared|sent) between threads safely", out) and "src/c18.rs" in out:
                # the Send + Sync instantiations are discharged by rustc's trait solver while the encoding is produced
                rp_dir = os.path.join(VERIF, "replays", "C18")
                os.makedirs(rp_dir, exist_ok=True)
                rp = os.path.join(rp_dir, "send-sync-%s.json" % c)
                bad = re.findall(r"error\[E0277\]: `([^`]*)` cannot be (?:shared|sent) between threads safely", out)
                json.dump({"engine": "observation", "property": "C18", "label": "C18.public_types_are_send_and_sync",
                           "what": "Send + Sync instantiation rejected by rustc: %s" % ", ".join(sorted(set(bad))), "build_log_tail": tail,
                           "how": "./check C18 (the harness crate's c18 module no longer compiles)"}, open(rp, "w"), indent=1)
                violations.append(("C18.public_types_are_send_and_sync", rp))
            for h in hs:
                if h.cfg == c:
                    r = kani_run.HarnessResult(h.key)
                    r.reason = "crate/harness did not build under Kani (configuration %s)" % c
                    results[h.key] = r
    todo = [h for h in hs if h.key not in results]
    # memory-aware scheduling: at most `jobs` workers and sum of caps <= budget
    budget = float(os.environ.get("VERIF_MEM_GB", "0") or 0)
    if budget <= 0:
        avail = 56.0
        try:
            for line in open("/proc/meminfo"):
                if line.startswith("MemAvailable:"):
                    avail = int(line.split()[1]) / (1 << 20) * 0.85
        except OSError:
            pass
        budget = max(8.0, min(56.0, avail))
    try:
        load = os.getloadavg()[0]
    except OSError:
        load = 0.0
    jobs = max(4, min(jobs, int((os.cpu_count() or 16) - load / 2)))
    lock = threading.Condition()
    used = [0.0]

    def work(h):
        with lock:
            while used[0] + h.mem > budget and used[0] > 0:
                lock.wait()
            used[0] += h.mem
        try:
            cmd = kani_cmd(h, prop_feature, tdirs[h.cfg])
            rc, out, wall, to = kani_run.run_cmd(cmd, crates.get(h.cfg, crate), h.timeout + 120, h.mem, os.path.join(logdir, h.name + "." + h.cfg + ".log"))
            r = kani_run.parse_output(h.key, out, rc, to, wall)
            return h, r
        finally:
            with lock:
                used[0] -= h.mem
                lock.notify_all()

    todo.sort(key=lambda h: -h.timeout)
    with cf.ThreadPoolExecutor(max_workers=jobs) as ex:
        for fut in cf.as_completed([ex.submit(work, h) for h in todo]):
            h, r = fut.result()
            results[h.key] = r
            log("  [%s] %-44s %-12s %6.1fs  %s" % (prop, h.name, r.status, r.solver_time or r.wall, r.reason[:150]))

    # ---- triage failures (in parallel: playback re-run + native replay per failed label)
    tri_lock = threading.Lock()

    def triage(h):
        r = results[h.key]
        if h.expect_fail:
            if r.status == "fail":
                r.status = "pass"
                r.reason = "false twin failed as required"
            elif r.status == "pass":
                r.status = "inconclusive"
                r.reason = "false twin PASSED: harness is vacuous"
            return
        if r.status != "fail":
            return
        labels = sorted(set(f[0] for f in r.failed))
        only_unwind = all("unwinding assertion" in l for l in labels)
        if only_unwind and not h.c01:
            r.status = "inconclusive"
            r.reason = "unwinding bound too small: " + r.reason
            return
        cmd = kani_cmd(h, prop_feature, tdirs[h.cfg], ["-Z", "concrete-playback", "--concrete-playback=print"])
        # trace generation needs more memory than the verdict run
        rc, out, wall, to = kani_run.run_cmd(cmd, crates.get(h.cfg, crate), 2 * h.timeout + 300, max(2 * h.mem, 16), os.path.join(logdir, h.name + "." + h.cfg + ".playback.log"))
        pbs = [p for p in kani_run.parse_playback(out) if p["kind"] != "cover"]
        by_label = {}
        for p in pbs:
            by_label.setdefault(p["label"], p)
        confirmed_any = False
        unresolved = []
        for label in labels:
            if "unwinding assertion" in label and not h.c01:
                continue
            p = by_label.get(label)
            vals = p["vals"] if p else None
            k = match_known(known, prop, h, label, vals)
            if k:
                with tri_lock:
                    known_hits.append(k)
                    log("KNOWN-FINDING: property=%s %s" % (prop, k["what"]))
                continue
            tag = "%d" % (zlib.crc32(label.encode()) % 100000)
            if not p:
                if label.startswith("C") and not is_default_check(label):
                    # the trace run did not yield values (resource limits): the labelled assertion failure itself is
                    # deterministic and re-runnable, so it is reported at Kani level
                    p = {"test_name": "", "body": "", "vals": None}
                    verdict, rout = "reproduced", "kani-level counterexample (no concrete values from the trace run)"
                    force_kani = True
                else:
                    unresolved.append(label + " (no concrete values produced)")
                    continue
            else:
                force_kani = False
            if force_kani:
                pass
            elif h.stubs and not h.twin:
                # stubs are not applied by native playback: the counterexample is reproducible only at Kani level
                verdict, rout = "reproduced", "kani-level counterexample (stubs in force; no native twin)"
            else:
                verdict, rout = native_replay(scratch, h, prop_feature, p, tag)
            is_unwind = "unwinding assertion" in label
            if verdict == "reproduced" or (is_unwind and verdict == "hang"):
                rp_dir = os.path.join(VERIF, "replays", prop)
                os.makedirs(rp_dir, exist_ok=True)
                rp = os.path.join(rp_dir, "%s.%s.json" % (h.name, tag))
                panic = re.findall(r"panicked at [^\n]*\n[^\n]*", rout)
                json.dump({"property": prop, "harness": h.fq, "module": h.mod, "cfg": h.cfg, "features": prop_feature, "tier_features": list(TIER_FEATS),
                           "label": label, "test_name": p["test_name"], "test_body": p["body"], "concrete_vals": p["vals"],
                           "twin": h.twin, "stubs": h.stubs, "replay_level": "kani" if ((h.stubs and not h.twin) or force_kani) else "native", "timeout": h.timeout, "mem": h.mem,
                           "native_panic": panic[:2], "how": "./check --replay " + rp}, open(rp, "w"), indent=1)
                with tri_lock:
                    violations.append((label, rp))
                confirmed_any = True
            else:
                unresolved.append("%s (native replay: %s)" % (label, verdict))
        if confirmed_any:
            r.status = "fail"
        elif unresolved:
            r.status = "inconclusive"
            r.reason = "counterexample not confirmed natively: " + "; ".join(unresolved)
        else:
            r.status = "pass"
            r.reason = "only known findings"

    with cf.ThreadPoolExecutor(max_workers=min(4, jobs)) as ex:
        list(ex.map(triage, hs))

    for h in hs:
        r = results[h.key]
        if r.status == "inconclusive":
            inconclusive.append({"harness": h.key, "reason": r.reason})
    # vacuity rule: every cover label of the property must be SATISFIED in at least one harness that ran to a verdict
    # (a label may be out of reach of a small instance, but never of all of them)
    sat, seen = set(), set()
    for h in hs:
        r = results[h.key]
        if r.status in ("pass", "fail") and not h.expect_fail:
            for k, v in r.covers.items():
                if not k.startswith(prop + "."):
                    continue   # witness of a family reused from another property: judged in that property's own check
                seen.add(k)
                if v == "SATISFIED":
                    sat.add(k)
    if not any(results[h.key].status == "inconclusive" for h in hs):
        for k in sorted(seen - sat):
            inconclusive.append({"harness": "(property-wide)", "reason": "vacuity: cover witness never satisfiable in any harness: " + k})
    for er in extra_results:
        for v in er.get("violations", []):
            k = None
            for kk in known.get("findings", []):
                if kk["property"] == prop and kk["label"] == v["label"] and kk.get("e2_witness") == v.get("witness"):
                    k = kk
            if k:
                known_hits.append(k)
                log("KNOWN-FINDING: property=%s %s" % (prop, k["what"]))
            else:
                violations.append((v["label"], v["replay"]))
        inconclusive += er.get("inconclusive", [])

    wall = time.time() - t0
    if not ONLY:
        if skipped_note:
            pm = dict(pm, assumptions=list(pm.get("assumptions", [])) + [skipped_note])
        write_evidence(prop, tier, seed, hs, results, extra_results, violations, known_hits, inconclusive, wall, build_s, pm, observations)
    if keep:
        _scratch_dirs.remove(scratch)
        log("scratch kept at", scratch)
    for label, rp in violations:
        log("VIOLATION property=%s replay=%s   # %s" % (prop, rp, label))
    if violations:
        return 1
    if inconclusive:
        for i in inconclusive:
            log("INCONCLUSIVE %s: %s" % (i["harness"], i["reason"]))
        return 2
    log("%s: held on everything explored (%d harnesses, %.0fs)" % (prop, len(hs), wall))
    return 0


def write_evidence(prop, tier, seed, hs, results, extra, violations, known_hits, inconclusive, wall, build_s, pm, observations=None):
    n_checks = sum(results[h.key].n_checks for h in hs)
    covers = set()
    for h in hs:
        for k, v in results[h.key].covers.items():
            if v == "SATISFIED":
                covers.add(k)
    evals = n_checks + sum(e.get("evaluations", 0) for e in extra)
    distinct = len(covers) + sum(e.get("distinct_nontrivial", 0) for e in extra)
    samples = []
    for h in hs[:6]:
        r = results[h.key]
        samples.append({"harness": h.key, "bounds": h.bounds, "status": r.status,
                        "cover_witnesses": sorted(k for k, v in r.covers.items() if v == "SATISFIED")[:6]})
    for e in extra:
        samples += e.get("samples", [])[:4]
    funcs = sorted(set(f for h in hs for f in h.funcs) | set(f for e in extra for f in e.get("functions_encoded", [])))
    stubs = sorted(set(s for h in hs for s in results[h.key].stubs))
    ev = {
        "property_id": prop,
        "tier": tier,
        "seed": seed,
        "level": "model_checking",
        "coverage": {
            "evaluations": evals,
            "distinct_nontrivial": distinct,
            "rule": ("evaluations = CBMC property checks (assertions, Kani default safety checks, unwinding assertions) discharged by the "
                     "SAT solver over all inputs inside each harness bound, plus E2 SMT queries where used; distinct_nontrivial = number of "
                     "distinct cover witnesses (reachable behaviour classes such as Ok / Incomplete / each error class / each oracle verdict) "
                     "the solver proved SATISFIABLE, counted by label across harnesses"),
            "samples": samples,
            "exhaustive": bool(pm.get("exhaustive", False)),
            "exhaustive_note": pm.get("exhaustive_note", ""),
            "engine": "Kani 0.68.0 / CBMC 6.11.0 / CaDiCaL" + (" + MIR->SMT (z3 4.8.12, cvc5 1.0)" if extra else ""),
            "harnesses": [dict(results[h.key].to_json(), bounds=h.bounds, cfg=h.cfg, expect_fail=h.expect_fail) for h in hs],
            "e2": extra,
            "non_solver_observations": observations,
            "functions_encoded": funcs,
            "stubs_in_force": stubs,
            "cbmc_checks": n_checks,
            "queries_discharged": evals,
            "solver_time_s": round(sum(results[h.key].solver_time for h in hs) + sum(e.get("solver_time_s", 0) for e in extra), 1),
            "build_time_s": round(build_s, 1),
            "outside_bounds": pm.get("outside", []),
            "inconclusive": inconclusive,
            "known_findings_matched": [k["what"] for k in known_hits],
            "violations_found": [{"label": l, "replay": rp} for l, rp in violations],
        },
        "assumptions": pm.get("assumptions", []) + meta.COMMON_ASSUMPTIONS,
        "wall_s": round(wall, 1),
        "violations": len(violations),
    }
    # evidence describes checks of /repo itself; runs against another tree (VERIF_REPO, development only) write elsewhere
    evdir = os.path.join(VERIF, "evidence") if REPO == "/repo" else os.path.join(tempfile.gettempdir(), "tlsverif-evidence-other-repo")
    os.makedirs(evdir, exist_ok=True)
    tmp = os.path.join(evdir, prop + ".json.tmp")
    json.dump(ev, open(tmp, "w"), indent=1)
    os.replace(tmp, os.path.join(evdir, prop + ".json"))


def do_replay(path):
    d = json.load(open(path))
    if d.get("engine") == "observation":
        scratch = mk_scratch()
        os.makedirs(os.path.join(scratch, "logs"))
        obs, viols = observations_c18(scratch, os.path.join(scratch, "logs"))
        log("observations: " + json.dumps(obs))
        for l, rp in viols:
            log("VIOLATION property=C18 replay=%s" % rp)
        return 1 if viols else 0
    if d.get("engine") == "e2":
        import e2
        return e2.replay(d, REPO, VERIF, mk_scratch())
    scratch = mk_scratch()
    os.makedirs(os.path.join(scratch, "logs"))
    h = registry.H(d["module"], d["harness"].split("::")[-1], cfg=d.get("cfg", "default"), twin=d.get("twin"),
                   timeout=d.get("timeout", 900), mem=d.get("mem", 12))
    if d.get("replay_level") == "kani":
        crate = prepare_crate(scratch)
        tdir = os.environ.get("VERIF_TARGET_DIR") or os.path.join(scratch, "t")
        cmd = kani_cmd(h, d.get("features") or d["property"].lower(), os.path.join(tdir, h.cfg) if os.environ.get("VERIF_TARGET_DIR") else tdir)
        rc, out, wall, to = kani_run.run_cmd(cmd, crate, h.timeout + 600, h.mem, os.path.join(scratch, "logs", "replay.log"))
        r = kani_run.parse_output(h.key, out, rc, to, wall)
        still = r.status == "fail" and any(f[0] == d["label"] for f in r.failed)
        log("kani-level replay of %s on %s: %s" % (d["label"], REPO, "still fails" if still else r.status + " " + r.reason))
        if still:
            log("VIOLATION property=%s replay=%s" % (d["property"], path))
            return 1
        return 0 if r.status == "pass" else 2
    pb = {"test_name": d["test_name"], "body": d["test_body"]}
    for f in d.get("tier_features", []):
        if f not in TIER_FEATS:
            TIER_FEATS.append(f)
    verdict, out = native_replay(scratch, h, d.get("features") or d["property"].lower(), pb, "r")
    log("replay of %s on %s: %s" % (d["label"], REPO, verdict))
    for m in re.findall(r"panicked at [^\n]*\n[^\n]*", out)[:2]:
        log("  " + m.replace("\n", " | "))
    if verdict == "reproduced" or verdict == "hang":
        log("VIOLATION property=%s replay=%s" % (d["property"], path))
        return 1
    return 0 if verdict == "not_reproduced" else 2


def main():
    ap = argparse.ArgumentParser()
    ap.add_argument("prop", nargs="?")
    ap.add_argument("--tier", default=os.environ.get("VERIF_TIER") or "quick", choices=["quick", "thorough"])
    ap.add_argument("--replay")
    ap.add_argument("--jobs", type=int, default=int(os.environ.get("VERIF_JOBS", "14")))
    ap.add_argument("--keep", action="store_true")
    ap.add_argument("--only", help="(development) restrict to harnesses whose name contains this substring; evidence is not written")
    a = ap.parse_args()
    if a.replay:
        sys.exit(do_replay(a.replay))
    if not a.prop or a.prop not in meta.META:
        log("usage: check <C01..C18> [--tier quick|thorough]")
        sys.exit(2)
    global ONLY
    ONLY = a.only
    sys.exit(run_property(a.prop, a.tier, a.jobs, a.keep))


if __name__ == "__main__":
    main()
