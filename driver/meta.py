"""Per-property metadata for evidence files: what lies outside the bounds, assumptions, finite domains."""

COMMON_ASSUMPTIONS = [
    "trusted: Kani 0.68 MIR->goto translation, CBMC 6.11 memory model, CaDiCaL; rustc nightly-2026-08-21 (Kani's pinned toolchain) instead of the repository's stable toolchain",
    "results of the code under test are never dropped inside a harness (ManuallyDrop): alloc's deallocation of result containers is not executed (rule R8 in DESIGN.md); the crate has no Drop impl",
    "hand-written oracles (reference decoders, registry tables, transition table) are trusted; a counterexample is reported only after native replay",
]

META = {
    "C01": {},
    "C02": {
        "outside": ["Ok-class payload bytes symbolic only up to 8 bytes (longer payloads: concrete zeros up to the 16640 cap)",
                    "plaintext content parsing beyond framing is C03/C04"],
        "assumptions": [],
    },
    "C03": {}, "C04": {}, "C05": {}, "C06": {}, "C07": {"e2": True},
    "C08": {
        "exhaustive": True,
        "exhaustive_note": "exhaustive over the finite abstract domain 25 states x 21 message kinds x 2 directions x session-id presence x 256 alert severities (all symbolic); message payload contents bounded to <= 2-byte slices and <= 1-element lists",
        "outside": ["message payloads longer than 2 bytes / lists longer than 1 element (the transition function never inspects them; not proven beyond that bound)"],
        "assumptions": ["ChangeCipherSpec is not a handshake message: its direction is pinned by the oracle only where the property's flows pin it (server's final CCS, 0-RTT client CCS)"],
    },
    "C09": {}, "C10": {}, "C11": {}, "C12": {}, "C13": {}, "C14": {}, "C15": {}, "C16": {"e2": True}, "C17": {
        "e2": True,
        "exhaustive": True,
        "exhaustive_note": "exhaustive over each code-point domain (all 256 / 65536 values of every newtype) in the bit-vector queries; the IANA table in oracle-data/registry.tsv is the trusted oracle",
        "outside": ["text of composite Debug output", "constants the crate defines that are not in oracle-data/registry.tsv are listed as constants_not_in_oracle, not judged"],
        "assumptions": ["MIR text format of the installed nightly; a function body the encoder does not fully understand is refused (reported), never partially encoded",
                        "fallback arm of the name tables is recognised syntactically (decimal + hex formatting of self.0); its exact text is decided on compiled code for TlsRecordType only"],
    }, "C18": {
        "observations": True,
        "outside": ["that each configuration builds with the repository's own stable toolchain (Kani compiles with its pinned nightly)",
                    "agreement of parsers outside the re-run harness sets (C02/C03/C05/C13 quick subsets)"],
        "assumptions": ["agreement across configurations is by transitivity through one configuration-independent oracle, within the bounds of the re-run harnesses",
                        "compile-time facts (serialize without std refused, forbid(unsafe_code), Send + Sync) are by-products of producing the encoding, listed under non_solver_observations and not counted as solver queries"],
    },
}
