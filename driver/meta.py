"""Per-property metadata for evidence files: what lies outside the bounds, assumptions, finite domains."""

COMMON_ASSUMPTIONS = [
    "trusted: Kani 0.68 MIR->goto translation, CBMC 6.11 memory model, CaDiCaL; rustc nightly-2026-08-21 (Kani's pinned toolchain) instead of the repository's stable toolchain",
    "results of the code under test are never dropped inside a harness (ManuallyDrop): alloc's deallocation of result containers is not executed (rule R8 in DESIGN.md); the crate has no Drop impl",
    "hand-written oracles (reference decoders, registry tables, transition table) are trusted; a counterexample is reported only after native replay",
]

def _m(outside, assumptions=(), **kw):
    d = {"outside": list(outside), "assumptions": list(assumptions)}
    d.update(kw)
    return d


META = {
    "C01": _m(["inputs longer than each harness's byte bound (length *fields* and length *arguments* are symbolic over their full width)",
               "operation histories of the defragmenter beyond base case + one inductive step / 2 calls (model callee)",
               "heap clause: only result-container sizes within the byte bound; transient allocations inside nom are not measured",
               "composite Debug output only for the listed small values (2-byte slices)"],
              ["an unwinding-assertion failure in a C01 harness is treated as non-termination and reported after a native watchdog replay"]),
    "C02": _m(["Ok-class payload bytes symbolic only up to 8 bytes (longer payloads: concrete zeros up to the 16640 cap)",
               "plaintext content parsing beyond framing is C03/C04"]),
    "C03": _m(["payloads longer than 4 (CCS), 5 (alert), 4 (application data), 8 (heartbeat), 9 (handshake list) bytes",
               "multi-message handshake payloads are checked with the 15 body parsers stubbed (list logic); bodies: C04",
               "one-step == two-step by transitivity through one oracle, not by a joint run"]),
    "C04": _m(["bodies longer than the per-harness bounds; list elements compared element-wise only in concrete-shape harnesses (<= 3 ciphers)",
               "Ok decoding of 32767-entry cipher lists / 2^24-1-byte bodies (length fields are symbolic, payloads of that size are not)"],
              ["three-valued oracle: extension-block length overrunning the body and trailing bytes inside a body are don't-care"]),
    "C05": _m(["content longer than 12 bytes; one or two content lengths per type in the quick tier (type x length matrix in the thorough tier)",
               "lists of more than 2 extensions"],
              ["client/server dispatchers may answer Unknown for a type they do not know, never a different typed variant",
               "E2 cross-check of the three dispatch tables is name-based (callee function names in MIR); an unknown callee name is inconclusive, not a violation"], e2=True),
    "C06": _m(["suffixes longer than one byte are covered by induction over the buffer bound of each harness, not beyond it",
               "dispatching parsers only with concrete type and declared length"]),
    "C07": _m(["the real payload parser only for the empty-first-fragment heartbeat history; everything else uses a model callee (composition argument)",
               "more than 2 calls in the quick tier (inductive step from an arbitrary valid state covers longer histories for the model callee)",
               "Vec growth at 10 MiB is not executed symbolically; the guard arithmetic is decided over 64-bit bit-vectors from MIR"],
              ["valid in-progress state = non-CCS/alert type and buffered bytes still cut short for the payload parser",
               "core::num::saturating_add has its documented semantics"], e2=True),
    "C08": _m(["message payloads longer than 2 bytes / lists longer than 1 element (the transition function never inspects them; not proven beyond that bound)"],
              ["ChangeCipherSpec is not a handshake message: its direction is pinned by the oracle only where the property's flows pin it (server's final CCS, 0-RTT client CCS)"],
              exhaustive=True,
              exhaustive_note="exhaustive over the finite abstract domain 25 states x 21 message kinds x 2 directions x session-id presence x 256 alert severities (all symbolic); message payload contents bounded to <= 2-byte slices and <= 1-element lists"),
    "C09": _m(["lists of more than 1 cipher / plaintext records containing messages (thorough tier only)", "bodies of 64 KiB and more are not serialized symbolically; their 16/24-bit length prefixes are decided over the full range by the E2 queries on length_be_u16/length_be_u24",
               "re-serialization is argued from determinism + field-wise round trip + the normal-form harness, not executed on parsed values"],
              ["serializer output is copied to a local array and the asserted header bytes re-imposed as constants before parsing (staging)",
               "E2 length-prefix queries: cookie_factory::gen reports the bytes written and be_u16/be_u24 emit the low 16/24 bits big-endian (dependency semantics)"], e2=True),
    "C10": _m(["bodies longer than 48 bytes; datagrams of several records are C16", "handshake list logic inside a DTLS record (many1 over the dispatcher) is not run"]),
    "C11": _m(["one enclosing context per field"], exhaustive=True, exhaustive_note="each field over its whole 8/16-bit domain; the enclosing structure is one concrete instance"),
    "C12": _m(["lookup by name for arbitrary strings (one registry name with one symbolic byte, thorough tier)", "names longer than 64 bytes"],
              ["reference rows are read from /repo/scripts/tls-ciphersuites.txt by an independent reader; the frozen snapshot in oracle-data/ stands for 'IANA assignments present today'",
               "name-token expectations only where the IANA name states them unambiguously (AEGIS MAC and ChaCha20 key bits are don't-care)"],
              exhaustive=True, exhaustive_note="the id space (65536 values) is fully symbolic through the compiled phf map; every registry row is compared"),
    "C13": _m(["fields longer than the 6-14 byte buffers (length fields symbolic)"]),
    "C14": _m(["lists of two or more real SCTs (thorough tier); extensions/signatures longer than 4 bytes in the Ok class"]),
    "C15": _m(["more than 2 advertised ciphers"], [], exhaustive=False),
    "C16": _m(["end-to-end runs of the real multi-record parsers did not fit (many1 over TlsPlaintext/DTLSPlaintext times out); decided by lemma + wrapper shape + single-record properties"],
              ["the step from the lemma (Copy output) to O = TlsPlaintext relies on many1/complete being parametric in the output type",
               "MIR shape recognition is syntactic; an unrecognised shape is reported as inconclusive, not as a violation"], e2=True),
    "C17": {
        "e2": True,
        "exhaustive": True,
        "exhaustive_note": "exhaustive over each code-point domain (all 256 / 65536 values of every newtype) in the bit-vector queries; the IANA table in oracle-data/registry.tsv is the trusted oracle",
        "outside": ["text of composite Debug output", "constants the crate defines that are not in oracle-data/registry.tsv are listed as constants_not_in_oracle, not judged"],
        "assumptions": ["MIR text format of the installed nightly; a function body the encoder does not fully understand is refused (reported), never partially encoded",
                        "fallback arm of the name tables is recognised syntactically (decimal + hex formatting of self.0); its exact text is decided on compiled code for TlsRecordType only"],
    },
    "C18": {
        "observations": True,
        "outside": ["that each configuration builds with the repository's own stable toolchain (Kani compiles with its pinned nightly)",
                    "agreement of parsers outside the re-run harness sets (C02/C03/C05/C13 quick subsets)"],
        "assumptions": ["agreement across configurations is by transitivity through one configuration-independent oracle, within the bounds of the re-run harnesses",
                        "compile-time facts (serialize without std refused, forbid(unsafe_code), Send + Sync) are by-products of producing the encoding, listed under non_solver_observations and not counted as solver queries"],
    },
}
