#!/usr/bin/env python3
"""Regenerate /verif/MANIFEST.json from the registry and meta tables."""
import json, os, sys
HERE = os.path.dirname(os.path.abspath(__file__))
sys.path.insert(0, HERE)
import registry, meta, manifest_text as T

VERIF = os.path.dirname(HERE)
props = [json.loads(l) for l in open(os.path.join(VERIF, "properties.jsonl"))]
checks, na = [], []
for p in props:
    pid = p["id"]
    if pid in T.NOT_APPLICABLE or not (registry.PROPS.get(pid) or meta.META.get(pid, {}).get("e2")):
        na.append({"property_id": pid, "reason": T.NOT_APPLICABLE.get(pid, "no check built yet (work in progress); nothing is claimed for this property")})
        continue
    t = T.TEXT[pid]
    checks.append({
        "property_id": pid,
        "quick_cmd": "./check %s --tier quick" % pid,
        "thorough_cmd": "./check %s --tier thorough" % pid,
        "evidence_file": "/verif/evidence/%s.json" % pid,
        "replay_cmd_template": "./check --replay {path}",
        "engine": t.get("engine", "kani"),
        "level_claimed": {"category": "model_checking", "text": t["level"], "design_ref": "DESIGN.md section 4 (plan) and section 8.3 (as built), " + pid},
        "level_note": t["note"],
        "technique": t["technique"],
    })
m = {
    "version": 1,
    "setup_cmd": "./setup.sh",
    "hooks": {
        "guard": "tls_parser_verif",
        "enable": "RUSTFLAGS=\"--cfg tls_parser_verif\" (set by the driver for every cargo kani build of the path dependency /repo)",
        "baseline_off_cmd": "cd /repo && cargo test --workspace --no-fail-fast --offline",
        "source_commits": T.HOOK_COMMITS,
        "add_only": True,
    },
    "engines": [
        {"name": "kani", "path": "/verif/harness", "serves_properties": [c["property_id"] for c in checks],
         "kind_free_text": "Kani 0.68 / CBMC 6.11 bounded model checking of the compiled crate (path dependency on /repo), SAT back end CaDiCaL"},
        {"name": "mir2smt", "path": "/verif/driver/e2.py", "serves_properties": [p for p in meta.META if meta.META[p].get("e2")],
         "kind_free_text": "MIR (rustc +nightly -Zunpretty=mir of /repo's working tree) -> SMT-LIB2 bit-vector encoding of switchInt tables and straight-line integer code, decided by z3 and cross-checked with cvc5"},
    ],
    "checks": checks,
    "not_applicable": na,
    "notes": T.NOTES,
}
json.dump(m, open(os.path.join(VERIF, "MANIFEST.json"), "w"), indent=1)
print("claimed:", [c["property_id"] for c in checks], "not_applicable:", [n["property_id"] for n in na])
