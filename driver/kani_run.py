"""Running cargo-kani on one harness and parsing its output (E1)."""
import os
import re
import resource
import signal
import subprocess
import time

KANI_ENV = {
    "CARGO_NET_OFFLINE": "true",
    "RUSTFLAGS": "--cfg tls_parser_verif",
    "CARGO_TERM_COLOR": "never",
}


def _limits(mem_gb):
    def f():
        os.setsid()
        lim = int(mem_gb * (1 << 30))
        resource.setrlimit(resource.RLIMIT_AS, (lim, lim))
    return f


def run_cmd(cmd, cwd, timeout, mem_gb=None, log_path=None, env_extra=None):
    """Run cmd under a timeout and an address-space cap; returns (rc, output, wall, timed_out)."""
    env = dict(os.environ)
    env.update(KANI_ENV)
    if env_extra:
        env.update(env_extra)
    t0 = time.time()
    p = subprocess.Popen(cmd, cwd=cwd, env=env, stdout=subprocess.PIPE, stderr=subprocess.STDOUT,
                         preexec_fn=_limits(mem_gb) if mem_gb else os.setsid, text=True, errors="replace")
    timed_out = False
    try:
        out, _ = p.communicate(timeout=timeout)
    except subprocess.TimeoutExpired:
        timed_out = True
        try:
            os.killpg(p.pid, signal.SIGKILL)
        except ProcessLookupError:
            pass
        out, _ = p.communicate()
    wall = time.time() - t0
    if log_path:
        with open(log_path, "w") as f:
            f.write("$ " + " ".join(cmd) + "\n" + out)
    return p.returncode, out, wall, timed_out


CHECK_RE = re.compile(
    r"^Check (\d+): ([^\n]+)\n\t - Status: (\S+)\n\t - Description: \"(.*)\"\n(?:\t - Location: (.*)\n)?", re.M)


class HarnessResult:
    def __init__(self, name):
        self.name = name
        self.status = "inconclusive"   # pass | fail | inconclusive
        self.reason = ""
        self.failed = []               # [(description, location, check_id)]
        self.unwind_failed = False
        self.covers = {}               # label -> SATISFIED/UNSATISFIABLE/UNREACHABLE
        self.n_checks = 0
        self.n_success = 0
        self.solver_time = 0.0
        self.wall = 0.0
        self.stubs = []
        self.log = ""

    def to_json(self):
        return {
            "harness": self.name, "status": self.status, "reason": self.reason,
            "failed": [f[0] for f in self.failed], "covers_satisfied": sum(1 for v in self.covers.values() if v == "SATISFIED"),
            "covers_total": len(self.covers), "cbmc_checks": self.n_checks, "solver_time_s": round(self.solver_time, 2),
            "wall_s": round(self.wall, 1),
        }


def parse_output(name, out, rc, timed_out, wall):
    r = HarnessResult(name)
    r.wall = wall
    for m in CHECK_RE.finditer(out):
        _cid, cname, status, desc, loc = m.groups()
        if ".cover." in cname or cname.endswith(".cover") or re.search(r"\.cover\.\d+$", cname):
            r.covers[desc] = status
            continue
        r.n_checks += 1
        if status == "SUCCESS":
            r.n_success += 1
        elif status == "FAILURE":
            if "unwinding assertion" in desc:
                r.unwind_failed = True
            r.failed.append((desc, loc or "", cname))
    m = re.search(r"Verification Time: ([0-9.]+)s", out)
    if m:
        r.solver_time = float(m.group(1))
    r.stubs = re.findall(r"- Stub: (.*)", out)
    if timed_out:
        r.reason = "timeout"
        return r
    if re.search(r"Out of memory|out of memory|std::bad_alloc|CBMC failed with status|Status: ERROR|memory exhausted|SIGKILL|Killed|kani_driver::cbmc_output_parser", out):
        r.reason = "solver resource error (out of memory / CBMC error)"
        return r
    if "VERIFICATION:- SUCCESSFUL" in out:
        if r.covers and not any(v == "SATISFIED" for v in r.covers.values()):
            r.status = "inconclusive"
            r.reason = "vacuity: none of the harness's cover witnesses is satisfiable: " + ", ".join(sorted(r.covers))
        else:
            r.status = "pass"
        return r
    if "VERIFICATION:- FAILED" in out:
        if r.failed:
            r.status = "fail"
            r.reason = "; ".join(sorted(set(f[0] for f in r.failed)))
        else:
            r.reason = "FAILED without a failed check (tool error)"
        return r
    if "error: could not compile" in out or "error[E" in out:
        r.reason = "harness/crate did not compile under Kani"
        return r
    r.reason = "no verdict in output (rc=%s)" % rc
    return r


PLAYBACK_RE = re.compile(
    r"/// Check for `(\w+)`: \"([^\n]*)\"\n(?:///[^\n]*\n)*\n#\[test\]\nfn (\w+)\(\) \{\n(.*?)\n\}\n```", re.S)


def parse_playback(out):
    """Return list of {kind,label,test_name,body,vals} from --concrete-playback=print output."""
    res = []
    for m in PLAYBACK_RE.finditer(out):
        kind, label, tname, body = m.groups()
        vals = [[int(x) for x in v.split(",") if x.strip()] for v in re.findall(r"vec!\[([0-9, ]*)\],", body)]
        res.append({"kind": kind, "label": label, "test_name": tname, "body": body, "vals": vals})
    return res
