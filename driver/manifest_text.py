"""Texts for MANIFEST.json."""
HOOK_COMMITS = ["da3f052"]
NOT_APPLICABLE = {}
NOTES = ("Every check is `./check <id> --tier quick|thorough` (python3 stdlib driver). It copies /verif/harness to a scratch dir, "
         "pins Cargo.lock from /repo, builds the path dependency /repo with --cfg tls_parser_verif under Kani, runs the property's harnesses "
         "in parallel under time and memory caps, replays any counterexample natively (cargo kani playback) before printing VIOLATION, "
         "and rewrites evidence/<id>.json. exit 2 = inconclusive (timeout / OOM / vacuous harness / non-reproducing counterexample).")
_BMC = ("Bounded model checking: a SAT-solver verdict over every input inside the stated bounds (buffer sizes, list lengths, unwind depths, "
        "listed in the evidence), on the compiled code of the crate and its dependencies; nothing is claimed outside the bounds. ")
_NOTE = ("Trusted: Kani/CBMC/CaDiCaL and Kani's pinned nightly rustc; the hand-written oracle the implementation is compared with; "
         "results are not dropped inside harnesses (alloc deallocation of result containers not executed). Stubs and assumptions are listed per run in the evidence file.")
def _t(level, technique, engine="kani"):
    return {"level": _BMC + level, "note": _NOTE, "technique": technique, "engine": engine}


TEXT = {
    "C01": _t("All Kani default checks (panics, arithmetic overflow, out-of-bounds and invalid pointer use, unwinding assertions = termination within the derived bound) are on for every public parser entry point over symbolic buffers and symbolic length arguments, and for the defragmenter under symbolic call sequences; result-container sizes are asserted against a linear bound.",
              "Kani/CBMC bounded model checking with all default safety checks and unwinding assertions on every public parser, defragmenter histories and formatting"),
    "C02": _t("The property quantifies over all header values, lengths and cut points, which are symbolic here (256 types x 65536 lengths x versions x every truncation), incl. the 16640/16641 cap boundary on a 16650-byte buffer.",
              "Kani/CBMC bounded model checking against a reference framing oracle; plaintext dispatcher wired with marker stubs"),
    "C03": _t('Per content type the parser output is compared with a maximal-well-formed-prefix oracle on symbolic payloads; one-step and two-step parsing are each proven equal to the same oracle; handshake list logic is run with symbolic message types and 24-bit lengths and the 15 body parsers stubbed.',
              'Kani/CBMC differential check against per-content-type reference decoders; handshake list logic with body parsers stubbed'),
    "C04": _t("Each handshake body parser is compared with a three-valued RFC reference decoder on symbolic bytes; all length fields are symbolic over their full range.",
              "Kani/CBMC differential check of every handshake body parser against RFC reference decoders; dispatcher wiring with marker stubs over all 256 types"),
    "C05": _t('Dispatch tables are decided for all 65536 extension types with content parsers stubbed by markers (and cross-checked on the MIR switch tables by an SMT query); each content parser is compared with a reference decoder on symbolic bytes; counterexamples of stubbed harnesses are replayed natively through un-stubbed twins.',
              'Kani/CBMC: dispatch tables over all 65536 types with marker stubs + per-type differential content decoding; MIR->SMT cross-check of the tables', 'kani+mir2smt'),
    "C06": _t("Provenance of every returned slice (pointer range inside the consumed input) and one-byte-extension induction are asserted on symbolic inputs.",
              "Kani/CBMC pointer-provenance assertions and one-byte extension induction on symbolic buffers"),
    "C07": _t('One call of symbolic kind from an arbitrary valid defragmenter state (built through a cfg-guarded hook) is compared with a reference defragmenter: base case plus this inductive step covers call histories of any length for the model payload parser; 2- and 3-call lock-step runs, a 64 KiB boundary step and a real-callee heartbeat run add witnesses; the 10 MiB guard arithmetic is decided over 64-bit bit-vectors from MIR.',
              'Kani/CBMC inductive step + lock-step against a reference defragmenter (model callee; real heartbeat callee for the empty-first-fragment history); size guard via MIR->SMT', 'kani+mir2smt'),
    "C08": _t("The abstract domain (25 states x 21 message kinds x direction x session-id presence x 256 severities) is finite and fully symbolic, so the one-step relation is decided exhaustively; equality of the step relation with the reference table gives equality of the accepted sequence language.",
              "Kani/CBMC: implementation step function == reference transition table on all cells with symbolic payloads"),
    "C09": _t('Values with symbolic field contents and concrete shapes are serialized, every emitted length field is re-derived by an independent walk, the output is staged into a local array with the asserted header bytes as constants and parsed back by the real parsers, and the fields are compared; the 16/24-bit length prefixes (length_be_u16 / length_be_u24) are additionally decided over their full range by bit-vector queries generated from the MIR of the two closures.',
              'Kani/CBMC round trip serialize -> independent length walk -> parse -> compare, on symbolic field values; length prefixes over the full 16/24-bit range via MIR->SMT', 'kani+mir2smt'),
    "C10": _t("DTLS header fields (epoch, 48-bit sequence, 24-bit lengths/offsets) are symbolic over their full width and compared with reference decoders; bodies are compared per type.",
              "Kani/CBMC differential check against DTLS reference decoders; handshake dispatcher with marker stubs"),
    "C11": _t("Each enumerated field is symbolic over its whole 8/16-bit domain inside an otherwise concrete well-formed structure.",
              "Kani/CBMC: one field symbolic over its full domain in a concrete enclosing structure, identity asserted"),
    "C12": _t("The id space (65536 values) is symbolic through phf's SipHash lookup; registry rows are compared with a table generated from scripts/tls-ciphersuites.txt at run time.",
              "Kani/CBMC over all 65536 ids through the compiled phf map + row-by-row comparison with a table generated from the data file"),
    "C13": _t("Key-exchange and signature structures are compared with reference decoders on symbolic bytes with all length fields symbolic.",
              "Kani/CBMC differential check against RFC 4492/5246 reference decoders"),
    "C14": _t("SCT entries and lists are compared with a reference decoder on symbolic bytes, all nested length fields and the 64-bit timestamp symbolic.",
              "Kani/CBMC differential check against an RFC 6962 reference decoder"),
    "C15": _t("Accessors and constructors are run on values with symbolic fields; rand_time is decided over all 2^32 leading words.",
              "Kani/CBMC field-identity assertions on symbolic hello values"),
    "C16": _t("Decided in pieces: a solver-checked lemma about nom's many1/many0(complete(p)) including element Failure, the MIR shape of the two wrappers (exactly many1(complete(single-record parser)) on the unmodified input; decisive: another shape is inconclusive), the single-record parsers never return Failure and frame exactly, tls_parser == parse_tls_plaintext on symbolic input, and trivial end-to-end inputs.",
              'Kani/CBMC lemma on nom many1(complete(p)) + MIR shape check of the wrappers + single-record framing harnesses + small end-to-end instances', 'kani+mir2smt'),
    "C17": _t("Constants, name tables and helper functions are extracted from MIR and decided over the full 8/16-bit domains as bit-vector queries; conversions and numeric text are decided on compiled code.",
              "MIR->SMT bit-vector queries (z3, cross-checked with cvc5) over full code-point domains + Kani/CBMC for conversions and numeric text", "mir2smt+kani"),
    "C18": _t("The framing, payload, extension and key-exchange harness sets are re-discharged on the crate compiled with default features, without default features and with serialize; equality with one configuration-independent oracle gives agreement across configurations.",
              "Kani/CBMC re-run of oracle-differential harnesses under three feature configurations"),
}
