"""Texts for MANIFEST.json."""
HOOK_COMMITS = []
NOT_APPLICABLE = {}
NOTES = ("Every check is `./check <id> --tier quick|thorough` (python3 stdlib driver). It copies /verif/harness to a scratch dir, "
         "pins Cargo.lock from /repo, builds the path dependency /repo with --cfg tls_parser_verif under Kani, runs the property's harnesses "
         "in parallel under time and memory caps, replays any counterexample natively (cargo kani playback) before printing VIOLATION, "
         "and rewrites evidence/<id>.json. exit 2 = inconclusive (timeout / OOM / vacuous harness / non-reproducing counterexample).")
_BMC = ("Bounded model checking: a SAT-solver verdict over every input inside the stated bounds (buffer sizes, list lengths, unwind depths, "
        "listed in the evidence), on the compiled code of the crate and its dependencies; nothing is claimed outside the bounds. ")
_NOTE = ("Trusted: Kani/CBMC/CaDiCaL and Kani's pinned nightly rustc; the hand-written oracle the implementation is compared with; "
         "results are not dropped inside harnesses (alloc deallocation of result containers not executed). Stubs and assumptions are listed per run in the evidence file.")
TEXT = {
    "C02": {"level": _BMC + "Right level because the property quantifies over all header values, lengths and cut points, which are symbolic here (256 types x 65536 lengths x versions x every truncation), incl. the 16640/16641 cap boundary on a 16650-byte buffer.",
            "note": _NOTE, "technique": "Kani/CBMC bounded model checking against a reference framing oracle; plaintext dispatcher wired with marker stubs"},
    "C08": {"level": _BMC + "The abstract domain (25 states x 21 message kinds x direction x session-id presence x 256 severities) is finite and fully symbolic, so the one-step relation is decided exhaustively; equality of the step relation with the reference table gives equality of the accepted sequence language.",
            "note": _NOTE, "technique": "Kani/CBMC: implementation step function == reference transition table on all cells with symbolic payloads"},
}
