"""Harness registry: which Kani harnesses decide which property, per tier, with their bounds.

H(module, name, ...) fields
  cfg       feature configuration of tls-parser the harness is built against: default|nostd|serialize
  timeout   per-harness solver cap in seconds
  mem       address-space cap in GB
  bounds    human-readable bound (goes verbatim into the evidence)
  stubs     list of stubbed callees (documentation; Kani's own "- Stub:" lines are checked against it)
"""


class H:
    def __init__(self, mod, name, tier="quick", cfg="default", timeout=300, mem=8, bounds="", stubs=(),
                 funcs=(), c01=False, expect_fail=False):
        self.mod, self.name, self.tier, self.cfg = mod, name, tier, cfg
        self.timeout, self.mem, self.bounds, self.stubs, self.funcs = timeout, mem, bounds, list(stubs), list(funcs)
        self.c01 = c01                  # unwinding-assertion failure counts as a violation (non-termination)
        self.expect_fail = expect_fail  # false twin: must come back FAILED (vacuity guard)

    @property
    def fq(self):
        return "%s::%s" % (self.mod, self.name)


PROPS = {}


def reg(prop, *hs):
    PROPS.setdefault(prop, []).extend(hs)


# ------------------------------------------------------------------------------------------------ C02
reg("C02",
    H("c02", "c02_raw_small", bounds="13-byte buffer, symbolic length 0..=13, all bytes symbolic; unwind 4",
      funcs=["parse_tls_raw_record", "parse_tls_record_header"]),
    H("c02", "c02_encrypted_small", bounds="13-byte buffer, symbolic length 0..=13, all bytes symbolic; unwind 4",
      funcs=["parse_tls_encrypted"]),
    H("c02", "c02_header", bounds="8-byte buffer, symbolic length", funcs=["parse_tls_record_header"]),
    H("c02", "c02_raw_cap", bounds="16650-byte zero array, symbolic 5-byte header, symbolic length 0..=16650",
      funcs=["parse_tls_raw_record"]),
    H("c02", "c02_encrypted_cap", bounds="16650-byte zero array, symbolic 5-byte header, symbolic length 0..=16650",
      funcs=["parse_tls_encrypted"]),
    H("c02", "c02_plaintext_wiring", bounds="12-byte buffer, symbolic length, all bytes symbolic; content dispatcher stubbed",
      stubs=["parse_tls_record_with_header"], funcs=["parse_tls_plaintext"]),
    H("c02", "c02_plaintext_ccs_2", bounds="ChangeCipherSpec record, length 2 concrete, payload+version+2 trailing bytes symbolic", funcs=["parse_tls_plaintext", "parse_tls_record_with_header"]),
    H("c02", "c02_plaintext_alert_3", bounds="alert record, length 3 concrete, payload symbolic", funcs=["parse_tls_message_alert"]),
    H("c02", "c02_plaintext_appdata_2", bounds="application-data record, length 2 concrete, payload symbolic", funcs=["parse_tls_message_applicationdata"]),
    H("c02", "c02_plaintext_heartbeat_0", bounds="heartbeat record, length 0", funcs=["parse_tls_message_heartbeat"]),
    H("c02", "c02_plaintext_heartbeat_2", bounds="heartbeat record, length 2 concrete, payload symbolic", funcs=["parse_tls_message_heartbeat"]),
    H("c02", "c02_plaintext_heartbeat_3", bounds="heartbeat record, length 3 concrete, payload symbolic", funcs=["parse_tls_message_heartbeat"]),
    H("c02", "c02_plaintext_heartbeat_5", bounds="heartbeat record, length 5 concrete, payload symbolic", funcs=["parse_tls_message_heartbeat"]),
    )

# ------------------------------------------------------------------------------------------------ C03
_RWH = ["parse_tls_record_with_header"]
reg("C03",
    H("c03", "c03_two_ccs", bounds="two-step, CCS payload <= 4 B symbolic length", funcs=_RWH + ["parse_tls_message_changecipherspec"]),
    H("c03", "c03_two_alert", bounds="two-step, alert payload <= 5 B symbolic length", funcs=_RWH + ["parse_tls_message_alert"]),
    H("c03", "c03_two_appdata", bounds="two-step, application data payload <= 4 B symbolic length", funcs=_RWH + ["parse_tls_message_applicationdata"]),
    H("c03", "c03_two_heartbeat", bounds="two-step, heartbeat payload <= 8 B symbolic length", funcs=_RWH + ["parse_tls_message_heartbeat"]),
    *[H("c03", "c03_two_unknown_%s" % t, bounds="two-step, content type 0x%s, payload <= 3 B" % t, funcs=_RWH) for t in ("00", "13", "19", "ff")],
    *[H("c03", "c03_one_%s" % n, bounds="one-step vs two-step, record length concrete (%s), payload/version/trailing byte symbolic" % n,
        funcs=["parse_tls_plaintext", "parse_tls_raw_record"] + _RWH, timeout=600)
      for n in ("ccs_0", "ccs_1", "ccs_2", "alert_1", "alert_2", "alert_3", "appdata_0", "appdata_1", "appdata_3",
                "heartbeat_2", "heartbeat_3", "heartbeat_4", "heartbeat_6")],
    )

# ------------------------------------------------------------------------------------------------ C08
reg("C08",
    H("c08", "c08_table_k00_06", bounds="25 states x kinds 0..6 x 2 dirs x sid x 256 severities; payload slices <= 2 B, lists <= 1",
      funcs=["tls_state_transition", "tls_state_transition_handshake"]),
    H("c08", "c08_table_k07_12", bounds="25 states x kinds 7..12 x 2 dirs x sid x 256 severities; payload slices <= 2 B, lists <= 1",
      funcs=["tls_state_transition", "tls_state_transition_handshake"]),
    H("c08", "c08_table_k13_20", bounds="25 states x kinds 13..20 x 2 dirs x sid x 256 severities; payload slices <= 2 B, lists <= 1",
      funcs=["tls_state_transition", "tls_state_transition_handshake"]),
    H("c08", "c08_flows_witness", bounds="three concrete documented flows of 5-11 steps, symbolic payloads",
      funcs=["tls_state_transition"]),
    )


def harnesses(prop, tier):
    hs = PROPS.get(prop, [])
    if tier == "quick":
        return [h for h in hs if h.tier == "quick"]
    return list(hs)
