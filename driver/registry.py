"""Harness registry: which Kani harnesses decide which property, per tier, with their bounds.

H(module, name, ...) fields
  cfg       feature configuration of tls-parser the harness is built against: default|nostd|serialize
  timeout   per-harness solver cap in seconds
  mem       address-space cap in GB
  bounds    human-readable bound (goes verbatim into the evidence)
  stubs     list of stubbed callees (documentation; Kani's own "- Stub:" lines are checked against it)
"""


class H:
    def __init__(self, mod, name, tier="quick", cfg="default", timeout=300, mem=8, bounds="", stubs=(),
                 funcs=(), c01=False, expect_fail=False, twin=None):
        self.mod, self.name, self.tier, self.cfg = mod, name, tier, cfg
        self.timeout, self.mem, self.bounds, self.stubs, self.funcs = timeout, mem, bounds, list(stubs), list(funcs)
        self.c01 = c01                  # unwinding-assertion failure counts as a violation (non-termination)
        self.expect_fail = expect_fail  # false twin: must come back FAILED (vacuity guard)
        self.twin = twin                # un-stubbed twin function used to replay a stubbed harness's counterexample natively

    @property
    def fq(self):
        return "%s::%s" % (self.mod, self.name)

    @property
    def key(self):
        return self.fq if self.cfg == "default" else "%s@%s" % (self.fq, self.cfg)

    def clone(self, **kw):
        h = H(self.mod, self.name, self.tier, self.cfg, self.timeout, self.mem, self.bounds, self.stubs, self.funcs, self.c01, self.expect_fail, self.twin)
        for k, v in kw.items():
            setattr(h, k, v)
        return h


PROPS = {}


def reg(prop, *hs):
    PROPS.setdefault(prop, []).extend(hs)


# ------------------------------------------------------------------------------------------------ C02
reg("C02",
    H("c02", "c02_raw_small", bounds="13-byte buffer, symbolic length 0..=13, all bytes symbolic; unwind 4",
      funcs=["parse_tls_raw_record", "parse_tls_record_header"]),
    H("c02", "c02_encrypted_small", bounds="13-byte buffer, symbolic length 0..=13, all bytes symbolic; unwind 4",
      funcs=["parse_tls_encrypted"]),
    H("c02", "c02_header", bounds="8-byte buffer, symbolic length", funcs=["parse_tls_record_header"]),
    H("c02", "c02_raw_cap", bounds="16650-byte zero array, symbolic 5-byte header, symbolic length 0..=16650",
      funcs=["parse_tls_raw_record"]),
    H("c02", "c02_encrypted_cap", bounds="16650-byte zero array, symbolic 5-byte header, symbolic length 0..=16650",
      funcs=["parse_tls_encrypted"]),
    H("c02", "c02_plaintext_wiring", bounds="12-byte buffer, symbolic length, all bytes symbolic; content dispatcher stubbed",
      stubs=["parse_tls_record_with_header"], funcs=["parse_tls_plaintext"]),
    H("c02", "c02_plaintext_handshake_6", bounds="handshake record, length 6 concrete, payload symbolic (message types and 24-bit lengths); 15 body parsers stubbed",
      stubs=["15 parse_tls_handshake_msg_* body parsers (marker stubs)"], funcs=["parse_tls_plaintext", "parse_tls_message_handshake"], timeout=1200, mem=16),
    H("c02", "c02_plaintext_ccs_2", bounds="ChangeCipherSpec record, length 2 concrete, payload+version+2 trailing bytes symbolic", funcs=["parse_tls_plaintext", "parse_tls_record_with_header"]),
    H("c02", "c02_plaintext_alert_3", bounds="alert record, length 3 concrete, payload symbolic", funcs=["parse_tls_message_alert"]),
    H("c02", "c02_plaintext_appdata_2", bounds="application-data record, length 2 concrete, payload symbolic", funcs=["parse_tls_message_applicationdata"]),
    H("c02", "c02_plaintext_heartbeat_0", bounds="heartbeat record, length 0", funcs=["parse_tls_message_heartbeat"]),
    H("c02", "c02_plaintext_heartbeat_2", bounds="heartbeat record, length 2 concrete, payload symbolic", funcs=["parse_tls_message_heartbeat"]),
    H("c02", "c02_plaintext_heartbeat_3", bounds="heartbeat record, length 3 concrete, payload symbolic", funcs=["parse_tls_message_heartbeat"]),
    H("c02", "c02_plaintext_heartbeat_5", bounds="heartbeat record, length 5 concrete, payload symbolic", funcs=["parse_tls_message_heartbeat"]),
    )

reg("C02", H("c02", "c02_false_twin", tier="thorough", expect_fail=True, bounds="vacuity guard: same body + assert!(false); must FAIL"))

# ------------------------------------------------------------------------------------------------ C03
_RWH = ["parse_tls_record_with_header"]
reg("C03",
    H("c03", "c03_two_ccs", bounds="two-step, CCS payload <= 4 B symbolic length", funcs=_RWH + ["parse_tls_message_changecipherspec"]),
    H("c03", "c03_two_alert", timeout=600, bounds="two-step, alert payload <= 5 B symbolic length", funcs=_RWH + ["parse_tls_message_alert"]),
    H("c03", "c03_two_appdata", bounds="two-step, application data payload <= 4 B symbolic length", funcs=_RWH + ["parse_tls_message_applicationdata"]),
    H("c03", "c03_two_heartbeat", bounds="two-step, heartbeat payload <= 8 B symbolic length", funcs=_RWH + ["parse_tls_message_heartbeat"]),
    *[H("c03", "c03_two_unknown_%s" % t, bounds="two-step, content type 0x%s, payload <= 3 B" % t, funcs=_RWH) for t in ("00", "13", "19", "ff")],
    *[H("c03", "c03_one_%s" % n, bounds="one-step vs two-step, record length concrete (%s), payload/version/trailing byte symbolic" % n,
        funcs=["parse_tls_plaintext", "parse_tls_raw_record"] + _RWH, timeout=600)
      for n in ("ccs_0", "ccs_1", "ccs_2", "alert_1", "alert_2", "alert_3", "appdata_0", "appdata_1", "appdata_3",
                "heartbeat_2", "heartbeat_3", "heartbeat_4", "heartbeat_6")],
    H("c03", "c03_two_heartbeat_free_header_len", bounds="two-step heartbeat, payload <= 7 B symbolic length, header length symbolic over all 65536 values", funcs=_RWH + ["parse_tls_message_heartbeat"]),
    H("c03", "c03_handshake_list_wiring", timeout=1500, mem=20, bounds="handshake record payload <= 9 B symbolic length (<= 2 messages), types and 24-bit lengths symbolic; all 15 body parsers stubbed",
      stubs=["15 parse_tls_handshake_msg_* body parsers (marker stubs)"], funcs=_RWH + ["parse_tls_message_handshake"]),
    )

# ------------------------------------------------------------------------------------------------ C04
C04_BOUNDS = {
    "c04_client_hello_38": "ClientHello body, 38 B (minimal) concrete length, all bytes symbolic",
    "c04_client_hello_41": "ClientHello body, 41 B concrete length, all bytes symbolic (session id <= 3, <= 1 cipher, extension block)",
    "c04_client_hello_44": "ClientHello body, 44 B concrete length, all bytes symbolic",
    "c04_client_hello_20": "ClientHello body cut off at 20 B: mandatory field cut off",
    "c04_dispatch_wiring": "<= 10 B symbolic length; handshake type over all 256 values, 24-bit length symbolic; all body parsers stubbed",
    "c04_new_session_ticket": "<= 9 B symbolic length; len argument over the full usize range",
    "c04_certificate": "<= 11 B symbolic length: up to 2 certificates, all u24 length fields symbolic",
    "c04_certificate_request_6": "<= 6 B symbolic length; both forms",
    "c04_certificate_request_8": "<= 8 B symbolic length; both forms",
}
reg("C04",
    H("c04", "c04_client_hello_shape_min", bounds="ClientHello of concrete shape: no session id, no ciphers, no compressions, no extension block; contents symbolic", funcs=["parse_tls_handshake_client_hello"]),
    H("c04", "c04_client_hello_shape_sid32_c2_m1_ext0", bounds="ClientHello of concrete shape: 32-byte session id, 2 ciphers, 1 compression, empty extension block; contents symbolic", funcs=["parse_tls_handshake_client_hello"], timeout=900, mem=20),
    H("c04", "c04_client_hello_shape_sid1_c3_m2_ext2", bounds="ClientHello of concrete shape: 1-byte session id, 3 ciphers, 2 compressions, 2-byte extension block; contents symbolic", funcs=["parse_tls_handshake_client_hello"], timeout=600),
    H("c04", "c04_client_hello_sid33_rejected", bounds="session-id length byte 33, everything else symbolic", funcs=["parse_tls_handshake_client_hello"]),
    H("c04", "c04_server_hello_draft18_40", tier="quick", timeout=600, mem=8, bounds=C04_BOUNDS.get("c04_server_hello_draft18_40", "symbolic bytes; see harness source"), funcs=["server_hello_draft18_40"]),
    H("c04", "c04_server_hello_unsupported_version", tier="quick", timeout=600, mem=8, bounds=C04_BOUNDS.get("c04_server_hello_unsupported_version", "symbolic bytes; see harness source"), funcs=["server_hello_unsupported_version"]),
    H("c04", "c04_new_session_ticket", tier="quick", timeout=600, mem=8, bounds=C04_BOUNDS.get("c04_new_session_ticket", "symbolic bytes; see harness source"), funcs=["new_session_ticket"]),
    H("c04", "c04_hello_retry_request", tier="quick", timeout=600, mem=8, bounds=C04_BOUNDS.get("c04_hello_retry_request", "symbolic bytes; see harness source"), funcs=["hello_retry_request"]),
    H("c04", "c04_certificate", tier="quick", timeout=600, mem=8, bounds=C04_BOUNDS.get("c04_certificate", "symbolic bytes; see harness source"), funcs=["certificate"]),
    H("c04", "c04_certificate_status", tier="quick", timeout=600, mem=8, bounds=C04_BOUNDS.get("c04_certificate_status", "symbolic bytes; see harness source"), funcs=["certificate_status"]),
    H("c04", "c04_next_protocol", tier="quick", timeout=600, mem=8, bounds=C04_BOUNDS.get("c04_next_protocol", "symbolic bytes; see harness source"), funcs=["next_protocol"]),
    H("c04", "c04_key_update_and_hello_request", tier="quick", timeout=600, mem=8, bounds=C04_BOUNDS.get("c04_key_update_and_hello_request", "symbolic bytes; see harness source"), funcs=["key_update_and_hello_request"]),
    H("c04", "c04_certificate_request_6", tier="quick", timeout=900, mem=16, bounds=C04_BOUNDS.get("c04_certificate_request_6", "symbolic bytes; see harness source"), funcs=["certificate_request"]),
    H("c04", "c04_certificate_request_8", tier="thorough", timeout=2400, mem=20, bounds=C04_BOUNDS.get("c04_certificate_request_8", "symbolic bytes; see harness source"), funcs=["certificate_request"]),
    H("c04", "c04_dispatch_wiring", tier="quick", timeout=900, mem=12, stubs=["all 15 parse_tls_handshake_msg_* body parsers (marker stubs)"], bounds=C04_BOUNDS.get("c04_dispatch_wiring", "symbolic bytes; see harness source"), funcs=["dispatch_wiring"]),
    H("c04", "c04_client_hello_38", tier="quick", timeout=900, mem=12, bounds=C04_BOUNDS.get("c04_client_hello_38", "symbolic bytes; see harness source"), funcs=["client_hello_38"]),
    H("c04", "c04_client_hello_41", tier="quick", timeout=900, mem=16, bounds=C04_BOUNDS.get("c04_client_hello_41", "symbolic bytes; see harness source"), funcs=["client_hello_41"]),
    H("c04", "c04_client_hello_44", tier="thorough", timeout=1500, mem=16, bounds=C04_BOUNDS.get("c04_client_hello_44", "symbolic bytes; see harness source"), funcs=["client_hello_44"]),
    H("c04", "c04_client_hello_20", tier="quick", timeout=600, mem=8, bounds=C04_BOUNDS.get("c04_client_hello_20", "symbolic bytes; see harness source"), funcs=["client_hello_20"]),
    H("c04", "c04_server_hello_tls12_42", tier="quick", timeout=600, mem=8, bounds=C04_BOUNDS.get("c04_server_hello_tls12_42", "symbolic bytes; see harness source"), funcs=["server_hello_tls12_42"]),
    H("c04", "c04_server_hello_tls10_40", tier="quick", timeout=600, mem=8, bounds=C04_BOUNDS.get("c04_server_hello_tls10_40", "symbolic bytes; see harness source"), funcs=["server_hello_tls10_40"]),
    H("c04", "c04_server_hello_tls11_38", tier="quick", timeout=600, mem=8, bounds=C04_BOUNDS.get("c04_server_hello_tls11_38", "symbolic bytes; see harness source"), funcs=["server_hello_tls11_38"]),
    H("c04", "c04_server_hello_ssl3_40", tier="quick", timeout=600, mem=8, bounds=C04_BOUNDS.get("c04_server_hello_ssl3_40", "symbolic bytes; see harness source"), funcs=["server_hello_ssl3_40"]),
    H("c04", "c04_server_key_exchange", tier="quick", timeout=600, mem=8, bounds=C04_BOUNDS.get("c04_server_key_exchange", "symbolic bytes; see harness source"), funcs=["server_key_exchange"]),
    H("c04", "c04_server_done", tier="quick", timeout=600, mem=8, bounds=C04_BOUNDS.get("c04_server_done", "symbolic bytes; see harness source"), funcs=["server_done"]),
    H("c04", "c04_certificate_verify", tier="quick", timeout=600, mem=8, bounds=C04_BOUNDS.get("c04_certificate_verify", "symbolic bytes; see harness source"), funcs=["certificate_verify"]),
    H("c04", "c04_finished", tier="quick", timeout=600, mem=8, bounds=C04_BOUNDS.get("c04_finished", "symbolic bytes; see harness source"), funcs=["finished"]),
    H("c04", "c04_client_key_exchange", tier="quick", timeout=600, mem=8, bounds=C04_BOUNDS.get("c04_client_key_exchange", "symbolic bytes; see harness source"), funcs=["client_key_exchange"]),
    H("c04", "c04_e2e_client_hello_41", tier="quick", timeout=900, mem=16, bounds=C04_BOUNDS.get("c04_e2e_client_hello_41", "symbolic bytes; see harness source"), funcs=["e2e_client_hello_41"]),
    H("c04", "c04_e2e_finished_3", tier="quick", timeout=600, mem=8, bounds=C04_BOUNDS.get("c04_e2e_finished_3", "symbolic bytes; see harness source"), funcs=["e2e_finished_3"]),
    H("c04", "c04_e2e_new_session_ticket_3", tier="quick", timeout=600, mem=8, bounds=C04_BOUNDS.get("c04_e2e_new_session_ticket_3", "symbolic bytes; see harness source"), funcs=["e2e_new_session_ticket_3"]),
    H("c04", "c04_e2e_new_session_ticket_6", tier="quick", timeout=600, mem=8, bounds=C04_BOUNDS.get("c04_e2e_new_session_ticket_6", "symbolic bytes; see harness source"), funcs=["e2e_new_session_ticket_6"]),
    H("c04", "c04_e2e_certificate_status_5", tier="quick", timeout=600, mem=8, bounds=C04_BOUNDS.get("c04_e2e_certificate_status_5", "symbolic bytes; see harness source"), funcs=["e2e_certificate_status_5"]),
    H("c04", "c04_e2e_next_protocol_4", tier="quick", timeout=600, mem=8, bounds=C04_BOUNDS.get("c04_e2e_next_protocol_4", "symbolic bytes; see harness source"), funcs=["e2e_next_protocol_4"]),
    H("c04", "c04_e2e_key_update_0", tier="quick", timeout=600, mem=8, bounds=C04_BOUNDS.get("c04_e2e_key_update_0", "symbolic bytes; see harness source"), funcs=["e2e_key_update_0"]),
    H("c04", "c04_e2e_server_hello_38", tier="quick", timeout=900, mem=12, bounds=C04_BOUNDS.get("c04_e2e_server_hello_38", "symbolic bytes; see harness source"), funcs=["e2e_server_hello_38"]),
    )

# ------------------------------------------------------------------------------------------------ C05
reg("C05",
    H("c05", "c05_dispatch_generic", twin="c05_dispatch_generic_native", timeout=900, mem=12, stubs=["all 26 extension content parsers (echo markers)"], bounds="<= 8 B symbolic length; extension type over all 65536 values, length field symbolic", funcs=["parse_tls_extension"]),
    H("c05", "c05_dispatch_client", twin="c05_dispatch_client_native", timeout=900, mem=12, stubs=["all 26 extension content parsers (echo markers)"], bounds="<= 8 B symbolic length; extension type over all 65536 values, length field symbolic", funcs=["parse_tls_client_hello_extension"]),
    H("c05", "c05_dispatch_server", twin="c05_dispatch_server_native", timeout=900, mem=12, stubs=["all 26 extension content parsers (echo markers)"], bounds="<= 8 B symbolic length; extension type over all 65536 values, length field symbolic", funcs=["parse_tls_server_hello_extension"]),
    H("c05", "c05_tag_sni", timeout=600, bounds="type bytes symbolic over all 65536 values, concrete well-formed body, symbolic trailing byte", funcs=["parse_tls_extension_sni", "parse_tls_extension"]),
    H("c05", "c05_tag_max_fragment_length", timeout=600, bounds="type bytes symbolic over all 65536 values, concrete well-formed body, symbolic trailing byte", funcs=["parse_tls_extension_max_fragment_length", "parse_tls_extension"]),
    H("c05", "c05_tag_status_request", timeout=600, bounds="type bytes symbolic over all 65536 values, concrete well-formed body, symbolic trailing byte", funcs=["parse_tls_extension_status_request", "parse_tls_extension"]),
    H("c05", "c05_tag_elliptic_curves", timeout=600, bounds="type bytes symbolic over all 65536 values, concrete well-formed body, symbolic trailing byte", funcs=["parse_tls_extension_elliptic_curves", "parse_tls_extension"]),
    H("c05", "c05_tag_ec_point_formats", timeout=600, bounds="type bytes symbolic over all 65536 values, concrete well-formed body, symbolic trailing byte", funcs=["parse_tls_extension_ec_point_formats", "parse_tls_extension"]),
    H("c05", "c05_tag_signature_algorithms", timeout=600, bounds="type bytes symbolic over all 65536 values, concrete well-formed body, symbolic trailing byte", funcs=["parse_tls_extension_signature_algorithms", "parse_tls_extension"]),
    H("c05", "c05_tag_heartbeat", timeout=600, bounds="type bytes symbolic over all 65536 values, concrete well-formed body, symbolic trailing byte", funcs=["parse_tls_extension_heartbeat", "parse_tls_extension"]),
    H("c05", "c05_tag_encrypt_then_mac", timeout=600, bounds="type bytes symbolic over all 65536 values, concrete well-formed body, symbolic trailing byte", funcs=["parse_tls_extension_encrypt_then_mac", "parse_tls_extension"]),
    H("c05", "c05_tag_extended_master_secret", timeout=600, bounds="type bytes symbolic over all 65536 values, concrete well-formed body, symbolic trailing byte", funcs=["parse_tls_extension_extended_master_secret", "parse_tls_extension"]),
    H("c05", "c05_tag_session_ticket", timeout=600, bounds="type bytes symbolic over all 65536 values, concrete well-formed body, symbolic trailing byte", funcs=["parse_tls_extension_session_ticket", "parse_tls_extension"]),
    H("c05", "c05_tag_key_share", timeout=600, bounds="type bytes symbolic over all 65536 values, concrete well-formed body, symbolic trailing byte", funcs=["parse_tls_extension_key_share", "parse_tls_extension"]),
    H("c05", "c05_tag_pre_shared_key", timeout=600, bounds="type bytes symbolic over all 65536 values, concrete well-formed body, symbolic trailing byte", funcs=["parse_tls_extension_pre_shared_key", "parse_tls_extension"]),
    H("c05", "c05_tag_early_data", timeout=600, bounds="type bytes symbolic over all 65536 values, concrete well-formed body, symbolic trailing byte", funcs=["parse_tls_extension_early_data", "parse_tls_extension"]),
    H("c05", "c05_tag_supported_versions", timeout=600, bounds="type bytes symbolic over all 65536 values, concrete well-formed body, symbolic trailing byte", funcs=["parse_tls_extension_supported_versions", "parse_tls_extension"]),
    H("c05", "c05_tag_cookie", timeout=600, bounds="type bytes symbolic over all 65536 values, concrete well-formed body, symbolic trailing byte", funcs=["parse_tls_extension_cookie", "parse_tls_extension"]),
    H("c05", "c05_tag_psk_key_exchange_modes", timeout=600, bounds="type bytes symbolic over all 65536 values, concrete well-formed body, symbolic trailing byte", funcs=["parse_tls_extension_psk_key_exchange_modes", "parse_tls_extension"]),
    H("c05", "c05_content_sni_0", timeout=600, bounds="type and content length concrete, content bytes and trailing byte symbolic", funcs=["parse_tls_extension -> sni_0 content parser"]),
    H("c05", "c05_content_sni_8", timeout=600, bounds="type and content length concrete, content bytes and trailing byte symbolic", funcs=["parse_tls_extension -> sni_8 content parser"]),
    H("c05", "c05_content_max_fragment_length_1", timeout=600, bounds="type and content length concrete, content bytes and trailing byte symbolic", funcs=["parse_tls_extension -> max_fragment_length_1 content parser"]),
    H("c05", "c05_content_max_fragment_length_0", timeout=600, bounds="type and content length concrete, content bytes and trailing byte symbolic", funcs=["parse_tls_extension -> max_fragment_length_0 content parser"]),
    H("c05", "c05_content_status_request_0", timeout=600, bounds="type and content length concrete, content bytes and trailing byte symbolic", funcs=["parse_tls_extension -> status_request_0 content parser"]),
    H("c05", "c05_content_status_request_4", timeout=600, bounds="type and content length concrete, content bytes and trailing byte symbolic", funcs=["parse_tls_extension -> status_request_4 content parser"]),
    H("c05", "c05_content_groups_6", timeout=600, bounds="type and content length concrete, content bytes and trailing byte symbolic", funcs=["parse_tls_extension -> groups_6 content parser"]),
    H("c05", "c05_content_point_formats_3", timeout=600, bounds="type and content length concrete, content bytes and trailing byte symbolic", funcs=["parse_tls_extension -> point_formats_3 content parser"]),
    H("c05", "c05_content_signature_algorithms_6", timeout=600, bounds="type and content length concrete, content bytes and trailing byte symbolic", funcs=["parse_tls_extension -> signature_algorithms_6 content parser"]),
    H("c05", "c05_content_heartbeat_1", timeout=600, bounds="type and content length concrete, content bytes and trailing byte symbolic", funcs=["parse_tls_extension -> heartbeat_1 content parser"]),
    H("c05", "c05_content_alpn_7", timeout=600, bounds="type and content length concrete, content bytes and trailing byte symbolic", funcs=["parse_tls_extension -> alpn_7 content parser"]),
    H("c05", "c05_content_sct_0", timeout=600, bounds="type and content length concrete, content bytes and trailing byte symbolic", funcs=["parse_tls_extension -> sct_0 content parser"]),
    H("c05", "c05_content_sct_5", timeout=600, bounds="type and content length concrete, content bytes and trailing byte symbolic", funcs=["parse_tls_extension -> sct_5 content parser"]),
    H("c05", "c05_content_padding_3", timeout=600, bounds="type and content length concrete, content bytes and trailing byte symbolic", funcs=["parse_tls_extension -> padding_3 content parser"]),
    H("c05", "c05_content_etm_0", timeout=600, bounds="type and content length concrete, content bytes and trailing byte symbolic", funcs=["parse_tls_extension -> etm_0 content parser"]),
    H("c05", "c05_content_etm_1", timeout=600, bounds="type and content length concrete, content bytes and trailing byte symbolic", funcs=["parse_tls_extension -> etm_1 content parser"]),
    H("c05", "c05_content_ems_0", timeout=600, bounds="type and content length concrete, content bytes and trailing byte symbolic", funcs=["parse_tls_extension -> ems_0 content parser"]),
    H("c05", "c05_content_ems_2", timeout=600, bounds="type and content length concrete, content bytes and trailing byte symbolic", funcs=["parse_tls_extension -> ems_2 content parser"]),
    H("c05", "c05_content_pha_0", timeout=600, bounds="type and content length concrete, content bytes and trailing byte symbolic", funcs=["parse_tls_extension -> pha_0 content parser"]),
    H("c05", "c05_content_pha_1", timeout=600, bounds="type and content length concrete, content bytes and trailing byte symbolic", funcs=["parse_tls_extension -> pha_1 content parser"]),
    H("c05", "c05_content_npn_0", timeout=600, bounds="type and content length concrete, content bytes and trailing byte symbolic", funcs=["parse_tls_extension -> npn_0 content parser"]),
    H("c05", "c05_content_npn_1", timeout=600, bounds="type and content length concrete, content bytes and trailing byte symbolic", funcs=["parse_tls_extension -> npn_1 content parser"]),
    H("c05", "c05_content_record_size_limit_2", timeout=600, bounds="type and content length concrete, content bytes and trailing byte symbolic", funcs=["parse_tls_extension -> record_size_limit_2 content parser"]),
    H("c05", "c05_content_session_ticket_3", timeout=600, bounds="type and content length concrete, content bytes and trailing byte symbolic", funcs=["parse_tls_extension -> session_ticket_3 content parser"]),
    H("c05", "c05_content_key_share_old_3", timeout=600, bounds="type and content length concrete, content bytes and trailing byte symbolic", funcs=["parse_tls_extension -> key_share_old_3 content parser"]),
    H("c05", "c05_content_key_share_3", timeout=600, bounds="type and content length concrete, content bytes and trailing byte symbolic", funcs=["parse_tls_extension -> key_share_3 content parser"]),
    H("c05", "c05_content_pre_shared_key_3", timeout=600, bounds="type and content length concrete, content bytes and trailing byte symbolic", funcs=["parse_tls_extension -> pre_shared_key_3 content parser"]),
    H("c05", "c05_content_cookie_3", timeout=600, bounds="type and content length concrete, content bytes and trailing byte symbolic", funcs=["parse_tls_extension -> cookie_3 content parser"]),
    H("c05", "c05_content_early_data_0", timeout=600, bounds="type and content length concrete, content bytes and trailing byte symbolic", funcs=["parse_tls_extension -> early_data_0 content parser"]),
    H("c05", "c05_content_early_data_4", timeout=600, bounds="type and content length concrete, content bytes and trailing byte symbolic", funcs=["parse_tls_extension -> early_data_4 content parser"]),
    H("c05", "c05_content_early_data_2", timeout=600, bounds="type and content length concrete, content bytes and trailing byte symbolic", funcs=["parse_tls_extension -> early_data_2 content parser"]),
    H("c05", "c05_content_supported_versions_2", timeout=600, bounds="type and content length concrete, content bytes and trailing byte symbolic", funcs=["parse_tls_extension -> supported_versions_2 content parser"]),
    H("c05", "c05_content_supported_versions_5", timeout=600, bounds="type and content length concrete, content bytes and trailing byte symbolic", funcs=["parse_tls_extension -> supported_versions_5 content parser"]),
    H("c05", "c05_content_supported_versions_0", timeout=600, bounds="type and content length concrete, content bytes and trailing byte symbolic", funcs=["parse_tls_extension -> supported_versions_0 content parser"]),
    H("c05", "c05_content_psk_modes_3", timeout=600, bounds="type and content length concrete, content bytes and trailing byte symbolic", funcs=["parse_tls_extension -> psk_modes_3 content parser"]),
    H("c05", "c05_content_oid_filters_7", timeout=600, bounds="type and content length concrete, content bytes and trailing byte symbolic", funcs=["parse_tls_extension -> oid_filters_7 content parser"]),
    H("c05", "c05_content_renegotiation_info_3", timeout=600, bounds="type and content length concrete, content bytes and trailing byte symbolic", funcs=["parse_tls_extension -> renegotiation_info_3 content parser"]),
    H("c05", "c05_content_esni_12", timeout=600, bounds="type and content length concrete, content bytes and trailing byte symbolic", funcs=["parse_tls_extension -> esni_12 content parser"]),
    H("c05", "c05_list_generic", timeout=900, mem=12, stubs=["single-extension parser (opaque type/length/data marker)"], bounds="block <= 10 B symbolic length: up to 2 extensions, types and length fields symbolic", funcs=["parse_tls_extensions"]),
    H("c05", "c05_list_client", timeout=900, mem=12, stubs=["single-extension parser (opaque type/length/data marker)"], bounds="block <= 10 B symbolic length: up to 2 extensions, types and length fields symbolic", funcs=["parse_tls_client_hello_extensions"]),
    H("c05", "c05_list_server", timeout=900, mem=12, stubs=["single-extension parser (opaque type/length/data marker)"], bounds="block <= 10 B symbolic length: up to 2 extensions, types and length fields symbolic", funcs=["parse_tls_server_hello_extensions"]),
    H("c05", "c05_derived_tag", bounds="GREASE / unknown type over all 65536 values", funcs=["TlsExtensionType::from(&TlsExtension)"]),
    )

import thorough_names
reg("C04", H("c04", "c04_opaque_body_large", tier="thorough", timeout=1500, mem=16, bounds="70000-byte input with unconstrained contents, symbolic input length and len argument (bodies beyond 16-bit lengths)",
              funcs=["parse_tls_handshake_msg_serverkeyexchange", "parse_tls_handshake_msg_newsessionticket"]))
reg("C04", *[H("c04t", n, tier="thorough", timeout=1500, mem=16, bounds="handshake type and declared length concrete (%s), body and following byte symbolic" % n[5:],
               funcs=["parse_tls_message_handshake"]) for n in thorough_names.C04T])
reg("C05", *[H("c05t", n, tier="thorough", timeout=1200, mem=12, bounds="extension type and content length concrete (%s), content and following byte symbolic; three dispatchers" % n[5:],
               funcs=["parse_tls_extension", "parse_tls_client_hello_extension", "parse_tls_server_hello_extension"]) for n in thorough_names.C05T])
reg("C05", H("c05", "c05_false_twin_dispatch_native", tier="thorough", expect_fail=True, bounds="vacuity guard: same body + assert!(false); must FAIL"))

# ------------------------------------------------------------------------------------------------ C07
_RP = ["TlsRecordsParser::parse_record", "TlsRecordsParser::parse_record_nocopy", "TlsRecordsParser::reset", "TlsRecordsParser::defrag_in_progress"]
reg("C07",
    *[H("c07", "c07_lockstep_2_%s" % k, tier=t, bounds="2 calls; model message length %s, fragment lengths %s+%s (concrete); bytes, content types, operation kinds symbolic" % tuple(k[1:].split("_")),
        stubs=["parse_tls_record_with_header (model callee)"], funcs=_RP, timeout=900, mem=12)
      for k, t in (("n2_1_1", "quick"), ("n3_1_2", "quick"), ("n3_2_2", "quick"), ("n1_0_1", "quick"), ("n4_1_1", "thorough"), ("n2_2_0", "thorough"))],
    *[H("c07", "c07_lockstep_3_%s" % k, tier=t, bounds="3 calls; model message length %s, fragment lengths %s+%s+%s (concrete); bytes, content types, operation kinds symbolic" % tuple(k[1:].split("_")),
        stubs=["parse_tls_record_with_header (model callee)"], funcs=_RP, timeout=3000, mem=20)
      for k, t in (("n3_1_1_1", "quick"), ("n3_0_2_1", "quick"), ("n4_2_1_1", "thorough"), ("n4_1_0_3", "thorough"), ("n2_1_1_1", "thorough"))],
    *[H("c07", "c07_heartbeat_e2e_%s" % k, tier=t, bounds="7-byte heartbeat payload split in 2 (%s, concrete); real payload parser; type, payload, padding symbolic" % k,
        funcs=_RP + ["parse_tls_record_with_header", "parse_tls_message_heartbeat"], timeout=900, mem=12)
      for k, t in (("cut0_pl1", "quick"), ("cut0_pl4", "quick"))],
    H("c07", "c07_step_at_64k_boundary", bounds="in-progress buffer of 65535 unconstrained bytes + 1 symbolic byte: the u16 boundary of the pseudo-header length", stubs=["parse_tls_record_with_header (model callee)"], funcs=_RP, timeout=600),
    *[H("c07", "c07_any_state_step_d%d" % d, bounds="one call (operation kind, content type, %d data bytes symbolic) from an arbitrary valid state: idle with <= 3 left-over bytes or in progress with <= 3 buffered bytes; model message length 1..4 symbolic" % d,
        stubs=["parse_tls_record_with_header (model callee)"], funcs=_RP + ["verif_from_parts (hook)"], timeout=900, mem=12) for d in (0, 1, 2)],
    )

# ------------------------------------------------------------------------------------------------ C08
reg("C08",
    H("c08", "c08_table_k00_06", bounds="25 states x kinds 0..6 x 2 dirs x sid x 256 severities; payload slices <= 2 B, lists <= 1",
      funcs=["tls_state_transition", "tls_state_transition_handshake"]),
    H("c08", "c08_table_k07_12", bounds="25 states x kinds 7..12 x 2 dirs x sid x 256 severities; payload slices <= 2 B, lists <= 1",
      funcs=["tls_state_transition", "tls_state_transition_handshake"]),
    H("c08", "c08_table_k13_20", bounds="25 states x kinds 13..20 x 2 dirs x sid x 256 severities; payload slices <= 2 B, lists <= 1",
      funcs=["tls_state_transition", "tls_state_transition_handshake"]),
    H("c08", "c08_flows_witness", bounds="three concrete documented flows of 5-11 steps, symbolic payloads",
      funcs=["tls_state_transition"]),
    )

# ------------------------------------------------------------------------------------------------ C09
reg("C09",
    H("c09", "c09_change_cipher_spec_message", cfg="serialize", timeout=900, mem=12, bounds="concrete shape, symbolic field contents (see harness)", funcs=["change_cipher_spec_message"]),
    H("c09", "c09_ext_sni_two_names", cfg="serialize", timeout=900, mem=12, bounds="SNI extension with two names (1 and 2 bytes), name types and bytes symbolic", funcs=["gen_tls_extension", "gen_tls_ext_sni"]),
    H("c09", "c09_plaintext_record_empty_stale_len", cfg="serialize", timeout=600, bounds="empty record, record type / version / stale hdr.len symbolic", funcs=["gen_tls_plaintext"]),
    H("c09", "c09_reserialization_normal_form", cfg="serialize", timeout=600, bounds="ServerHello, ext None vs Some(empty), all scalar fields symbolic", funcs=["gen_tls_serverhello"]),
    H("c09", "c09_extension_list_round_trip", cfg="serialize", timeout=900, mem=12, bounds="concrete shape, symbolic field contents (see harness)", funcs=["extension_list_round_trip"]),
    H("c09", "c09_server_hello_nosid_noext", cfg="serialize", timeout=900, mem=12, bounds="concrete shape, symbolic field contents (see harness)", funcs=["server_hello_nosid_noext"]),
    H("c09", "c09_server_hello_sid2_ext2", cfg="serialize", timeout=900, mem=12, bounds="concrete shape, symbolic field contents (see harness)", funcs=["server_hello_sid2_ext2"]),
    H("c09", "c09_client_hello_min", cfg="serialize", timeout=900, mem=12, bounds="concrete shape, symbolic field contents (see harness)", funcs=["client_hello_min"]),
    H("c09", "c09_client_hello_c1", cfg="serialize", timeout=900, mem=16, bounds="ClientHello: no session id, 1 cipher, no compression, no extension block; contents symbolic", funcs=["gen_tls_clienthello"]),
    H("c09", "c09_server_hello_draft18_noext", cfg="serialize", timeout=900, mem=12, bounds="concrete shape, symbolic field contents (see harness)", funcs=["server_hello_draft18_noext"]),
    H("c09", "c09_server_hello_draft18_ext2", cfg="serialize", timeout=900, mem=12, bounds="concrete shape, symbolic field contents (see harness)", funcs=["server_hello_draft18_ext2"]),
    H("c09", "c09_cke_unknown", cfg="serialize", timeout=900, mem=12, bounds="concrete shape, symbolic field contents (see harness)", funcs=["cke_unknown"]),
    H("c09", "c09_cke_dh", cfg="serialize", timeout=900, mem=12, bounds="concrete shape, symbolic field contents (see harness)", funcs=["cke_dh"]),
    H("c09", "c09_cke_ecdh", cfg="serialize", timeout=900, mem=12, bounds="concrete shape, symbolic field contents (see harness)", funcs=["cke_ecdh"]),
    H("c09", "c09_finished", cfg="serialize", timeout=900, mem=12, bounds="concrete shape, symbolic field contents (see harness)", funcs=["finished"]),
    H("c09", "c09_hello_request", cfg="serialize", timeout=900, mem=12, bounds="concrete shape, symbolic field contents (see harness)", funcs=["hello_request"]),
    H("c09", "c09_ext_sni", cfg="serialize", timeout=900, mem=12, bounds="concrete shape, symbolic field contents (see harness)", funcs=["ext_sni"]),
    H("c09", "c09_ext_max_fragment_length", cfg="serialize", timeout=900, mem=12, bounds="concrete shape, symbolic field contents (see harness)", funcs=["ext_max_fragment_length"]),
    H("c09", "c09_ext_supported_groups", cfg="serialize", timeout=900, mem=12, bounds="concrete shape, symbolic field contents (see harness)", funcs=["ext_supported_groups"]),
    H("c09", "c09_unsupported_0", cfg="serialize", timeout=900, mem=12, bounds="concrete shape, symbolic field contents (see harness)", funcs=["unsupported_0"]),
    H("c09", "c09_unsupported_1", cfg="serialize", timeout=900, mem=12, bounds="concrete shape, symbolic field contents (see harness)", funcs=["unsupported_1"]),
    H("c09", "c09_unsupported_2", cfg="serialize", timeout=900, mem=12, bounds="concrete shape, symbolic field contents (see harness)", funcs=["unsupported_2"]),
    H("c09", "c09_unsupported_3", cfg="serialize", timeout=900, mem=12, bounds="concrete shape, symbolic field contents (see harness)", funcs=["unsupported_3"]),
    H("c09", "c09_unsupported_4", cfg="serialize", timeout=900, mem=12, bounds="concrete shape, symbolic field contents (see harness)", funcs=["unsupported_4"]),
    H("c09", "c09_unsupported_5", cfg="serialize", timeout=900, mem=12, bounds="concrete shape, symbolic field contents (see harness)", funcs=["unsupported_5"]),
    H("c09", "c09_unsupported_6", cfg="serialize", timeout=900, mem=12, bounds="concrete shape, symbolic field contents (see harness)", funcs=["unsupported_6"]),
    H("c09", "c09_unsupported_7", cfg="serialize", timeout=900, mem=12, bounds="concrete shape, symbolic field contents (see harness)", funcs=["unsupported_7"]),
    )

reg("C08", H("c08", "c08_false_twin", tier="thorough", expect_fail=True, bounds="vacuity guard: same body + assert!(false); must FAIL"))

# ------------------------------------------------------------------------------------------------ C10
_DH = ["parse_dtls_message_handshake"]
reg("C10",
    H("c10", "c10_record_header", bounds="<= 15 B symbolic length; epoch, 48-bit sequence, all fields symbolic", funcs=["parse_dtls_record_header"]),
    H("c10", "c10_record_wiring_small", bounds="<= 18 B symbolic length, all bytes symbolic; content dispatcher stubbed",
      stubs=["parse_dtls_record_with_header"], funcs=["parse_dtls_plaintext_record"]),
    H("c10", "c10_record_wiring_cap", bounds="16660-byte zero array, symbolic 13-byte header, symbolic length; content dispatcher stubbed",
      stubs=["parse_dtls_record_with_header"], funcs=["parse_dtls_plaintext_record"], timeout=600),
    H("c10", "c10_hs_dispatch_wiring", bounds="<= 16 B symbolic length; handshake type over all 256 values, length / offset / fragment_length over their full 24-bit ranges; six body parsers stubbed",
      stubs=["6 DTLS handshake body parsers (marker stubs)"], funcs=_DH, timeout=900, mem=12),
    H("c10", "c10_hs_serverdone", bounds="16 B input, type 14 concrete, length/seq/offset/fragment_length symbolic over full 24/16-bit ranges", funcs=_DH),
    H("c10", "c10_hs_clientkeyexchange", bounds="16 B input, type 16 concrete, header fields symbolic", funcs=_DH),
    H("c10", "c10_hs_hello_verify_request", bounds="18 B input, type 3 concrete, header fields symbolic, cookie length symbolic", funcs=_DH + ["parse_dtls_hello_verify_request"]),
    *[H("c10", "c10_hs_unsupported_%s" % t, bounds="15 B input, unsupported type 0x%s, header fields symbolic" % t, funcs=_DH) for t in ("00", "04", "0c", "14", "ff")],
    H("c10", "c10_body_client_hello_cookie33", bounds="ClientHello body of concrete shape with a 33-byte cookie, contents symbolic", funcs=_DH + ["parse_dtls_client_hello"], timeout=600),
    H("c10", "c10_body_client_hello_39", bounds="ClientHello body 39 B (minimal), all body bytes symbolic; header shape concrete", funcs=_DH + ["parse_dtls_client_hello"], timeout=900, mem=20),
    H("c10", "c10_body_client_hello_44", bounds="ClientHello body 44 B, all body bytes symbolic", funcs=_DH + ["parse_dtls_client_hello"], timeout=1500, mem=24, tier="thorough"),
    H("c10", "c10_body_client_hello_shape", bounds="ClientHello body of concrete shape (2-byte cookie, 2 ciphers, 1 compression), contents symbolic; elements compared in order", funcs=_DH + ["parse_dtls_client_hello"], timeout=600),
    H("c10", "c10_body_server_hello_38", bounds="ServerHello body 38 B (minimal), all body bytes symbolic", funcs=_DH + ["parse_tls_server_hello_tlsv12"], timeout=600),
    H("c10", "c10_body_server_hello_42", bounds="ServerHello body 42 B, all body bytes symbolic", funcs=_DH + ["parse_tls_server_hello_tlsv12"], timeout=600),
    H("c10", "c10_body_certificate_10", bounds="Certificate body 10 B: up to 2 certificates, all length fields symbolic", funcs=_DH + ["parse_tls_certificate"], timeout=600),
    H("c10", "c10_record_ccs", bounds="CCS record payload <= 3 B", funcs=["parse_dtls_record_with_header", "parse_dtls_message_changecipherspec"]),
    H("c10", "c10_record_alert", bounds="alert record payload <= 4 B", funcs=["parse_dtls_record_with_header", "parse_dtls_message_alert"]),
    H("c10", "c10_record_unknown_00", bounds="content type 0, payload <= 3 B", funcs=["parse_dtls_record_with_header"]),
    H("c10", "c10_record_unknown_19", bounds="content type 0x19, payload <= 3 B", funcs=["parse_dtls_record_with_header"]),
    )

# ------------------------------------------------------------------------------------------------ C11
reg("C11",
    H("c11", "c11_raw_record_type_and_version", bounds="one/two fields symbolic over the full 8/16-bit domain in a concrete well-formed structure"),
    H("c11", "c11_plaintext_version_alert_fields", bounds="one/two fields symbolic over the full 8/16-bit domain in a concrete well-formed structure"),
    H("c11", "c11_dtls_record_version", bounds="one/two fields symbolic over the full 8/16-bit domain in a concrete well-formed structure"),
    H("c11", "c11_heartbeat_type", bounds="one/two fields symbolic over the full 8/16-bit domain in a concrete well-formed structure"),
    H("c11", "c11_client_hello_version_ciphers_compressions", bounds="one/two fields symbolic over the full 8/16-bit domain in a concrete well-formed structure"),
    H("c11", "c11_server_hello_cipher_compression", bounds="one/two fields symbolic over the full 8/16-bit domain in a concrete well-formed structure"),
    H("c11", "c11_hello_retry_request_version_cipher", bounds="one/two fields symbolic over the full 8/16-bit domain in a concrete well-formed structure"),
    H("c11", "c11_extension_type_unknown_parser", bounds="one/two fields symbolic over the full 8/16-bit domain in a concrete well-formed structure"),
    H("c11", "c11_supported_groups", bounds="one/two fields symbolic over the full 8/16-bit domain in a concrete well-formed structure"),
    H("c11", "c11_ec_named_curve_and_esni_group", bounds="one/two fields symbolic over the full 8/16-bit domain in a concrete well-formed structure"),
    H("c11", "c11_signature_algorithms", bounds="one/two fields symbolic over the full 8/16-bit domain in a concrete well-formed structure"),
    H("c11", "c11_digitally_signed_algorithms", bounds="one/two fields symbolic over the full 8/16-bit domain in a concrete well-formed structure"),
    H("c11", "c11_sni_name_type", bounds="one/two fields symbolic over the full 8/16-bit domain in a concrete well-formed structure"),
    H("c11", "c11_certificate_status_type", bounds="one/two fields symbolic over the full 8/16-bit domain in a concrete well-formed structure"),
    H("c11", "c11_certificate_request_types", bounds="one/two fields symbolic over the full 8/16-bit domain in a concrete well-formed structure"),
    H("c11", "c11_psk_modes_and_point_formats", bounds="one/two fields symbolic over the full 8/16-bit domain in a concrete well-formed structure"),
    H("c11", "c11_ct_version_and_key_update", bounds="one/two fields symbolic over the full 8/16-bit domain in a concrete well-formed structure"),
    )

# ------------------------------------------------------------------------------------------------ C12
_CF = ["TlsCipherSuite::from_id", "CIPHERS (phf map generated by build.rs)"]
reg("C12",
    H("c12", "c12_lookup_any_id", bounds="id symbolic over all 65536 values through phf/SipHash; from_id and TryFrom<u16>; derived sizes on the returned entry", timeout=900,
      funcs=_CF + ["TryFrom<u16>", "enc_key_size", "enc_block_size", "mac_length"]),
    H("c12", "c12_lookup_any_id_other_routes", bounds="id symbolic over all 65536 values; TryFrom<TlsCipherSuiteID> and TlsCipherSuiteID::get_ciphersuite", timeout=900,
      funcs=_CF + ["TryFrom<TlsCipherSuiteID>", "TlsCipherSuiteID::get_ciphersuite"]),
    *[H("c12", "c12_rows_%d" % k, bounds="rows %d/8 of the table generated from scripts/tls-ciphersuites.txt: all 10 columns, name byte-for-byte, name-token expectations" % k,
        timeout=900, funcs=_CF) for k in range(8)],
    *[H("c12", "c12_frozen_%d" % k, bounds="rows %d/8 of the frozen snapshot (oracle-data/tls-ciphersuites.frozen.txt): present and unaltered" % k,
        timeout=900, funcs=_CF) for k in range(8)],
    H("c12", "c12_from_name_neg_a", tier="thorough", bounds="same registry name: strict prefix and one-letter case flip find nothing (concrete)", timeout=1500, mem=12, funcs=["TlsCipherSuite::from_name"]),
    H("c12", "c12_from_name_case_a", bounds="same registry name with the case of its first letter flipped finds nothing (concrete)", timeout=1500, mem=12, funcs=["TlsCipherSuite::from_name"]),
    H("c12", "c12_from_name_a", bounds="one registry name (seed-selected), concrete: both lookup routes", timeout=1500, mem=12, funcs=["TlsCipherSuite::from_name", "TryFrom<&str>"]),
    H("c12", "c12_from_name_sym_a", tier="thorough", bounds="one registry name with one symbolic ASCII byte at a seed-selected position (352 x string compare)", timeout=3000, mem=20, funcs=["TlsCipherSuite::from_name"]),
    H("c12", "c12_from_name_b", tier="thorough", bounds="second registry name, concrete", timeout=900, mem=12, funcs=["TlsCipherSuite::from_name", "TryFrom<&str>"]),
    )

# ------------------------------------------------------------------------------------------------ C13
reg("C13",
    H("c13", "c13_dh_params", bounds="<= 12 B symbolic length; three u16 length fields symbolic", funcs=["parse_dh_params"]),
    H("c13", "c13_ec_parameters", bounds="<= 14 B symbolic length; curve type symbolic over 256 values; six u8 length fields", funcs=["parse_ec_parameters"]),
    H("c13", "c13_ecdh_params", bounds="<= 12 B symbolic length", funcs=["parse_ecdh_params"]),
    H("c13", "c13_ecpoint", bounds="<= 6 B symbolic length", funcs=["ECPoint::parse"]),
    H("c13", "c13_digitally_signed", bounds="<= 8 B symbolic length", funcs=["parse_digitally_signed"]),
    H("c13", "c13_digitally_signed_old", bounds="<= 6 B symbolic length", funcs=["parse_digitally_signed_old"]),
    H("c13", "c13_content_and_signature_dh", bounds="<= 12 B symbolic length, ext symbolic", funcs=["parse_content_and_signature::<parse_dh_params>"]),
    H("c13", "c13_content_and_signature_ecdh", bounds="<= 11 B symbolic length, ext symbolic", funcs=["parse_content_and_signature::<parse_ecdh_params>"]),
    )

reg("C13", H("c13", "c13_false_twin", tier="thorough", expect_fail=True, bounds="vacuity guard: same body + assert!(false); must FAIL"))

# ------------------------------------------------------------------------------------------------ C14
reg("C14",
    H("c14", "c14_sct_single", bounds="<= 53 B symbolic length (minimal SCT is 49 B: ext+signature <= 4 B in the Ok class); all length fields and the 64-bit timestamp symbolic; unwind 34",
      funcs=["parse_ct_signed_certificate_timestamp", "parse_log_id", "parse_ct_extensions", "parse_digitally_signed"], timeout=600),
    H("c14", "c14_sct_list_wiring", bounds="list buffer <= 11 B symbolic length, up to 4 entries; single-entry parser stubbed by an opaque length-prefixed marker",
      stubs=["parse_ct_signed_certificate_timestamp"], funcs=["parse_ct_signed_certificate_timestamp_list"], timeout=600),
    H("c14", "c14_sct_list_one_shape", bounds="list of exactly one 47-byte entry (shape concrete, contents and inner length fields symbolic)",
      funcs=["parse_ct_signed_certificate_timestamp_list"], timeout=1200),
    H("c14", "c14_sct_list_two_shape", tier="thorough", bounds="list of exactly two 47-byte entries (shape concrete, contents and inner length fields symbolic)",
      funcs=["parse_ct_signed_certificate_timestamp_list"], timeout=2400, mem=20),
    )

# ------------------------------------------------------------------------------------------------ C15
reg("C15",
    H("c15", "c15_client_hello_constructed", bounds="random 0..=34 B symbolic length and content, symbolic presence of sid/ext, <= 1 cipher, <= 1 compression",
      funcs=["TlsClientHelloContents::new", "get_version", "ClientHello::{version,random,rand_time,rand_bytes,session_id,ciphers,comp,ext}"]),
    H("c15", "c15_client_hello_cipher_lookup", bounds="2 advertised ids: one symbolic over all 65536 values, one registered", timeout=600,
      funcs=["ClientHello::cipher_suites", "TlsClientHelloContents::get_ciphers", "TlsCipherSuiteID::get_ciphersuite"]),
    H("c15", "c15_server_hello_constructed", bounds="all scalar arguments symbolic; cipher id over all 65536 values", timeout=600,
      funcs=["TlsServerHelloContents::new", "get_version", "get_cipher"]),
    H("c15", "c15_dtls_client_hello_constructed", bounds="random 0..=34 B symbolic, <= 1 cipher", funcs=["impl ClientHello for DTLSClientHello"]),
    H("c15", "c15_dtls_client_hello_parsed", bounds="DTLS ClientHello of concrete shape (1-byte cookie, 1 cipher, 1 compression), contents symbolic", funcs=["parse_dtls_message_handshake", "impl ClientHello for DTLSClientHello"]),
    H("c15", "c15_client_hello_parsed", bounds="45-byte ClientHello body of concrete shape (sid 2 B, 1 cipher, 1 compression), contents symbolic",
      funcs=["parse_tls_handshake_client_hello", "ClientHello accessors"]),
    )

# ------------------------------------------------------------------------------------------------ C16
reg("C16",
    H("c16", "c16_lemma_many1_complete", bounds="nom 7.1.3 many1(complete(p)) on a model parser with Copy output; buffer <= 8 B symbolic length (up to 8 elements)", funcs=["nom::multi::many1", "nom::combinator::complete"]),
    H("c16", "c16_lemma_many0_complete", bounds="nom 7.1.3 many0(complete(p)) on the same model parser; buffer <= 8 B", funcs=["nom::multi::many0", "nom::combinator::complete"]),
    H("c16", "c16_many_empty_and_garbage_first_record", bounds="concrete inputs: empty buffer; one complete record of unknown content type (TLS and DTLS), one symbolic payload byte", funcs=["tls_parser_many", "parse_dtls_plaintext_records"], timeout=900, mem=16),
    H("c16", "c16_wrapper_with_model_record_parser", tier="thorough", bounds="tls_parser_many on <= 5 B symbolic length with parse_tls_plaintext replaced by a model of 2-byte records (<= 2 records)",
      stubs=["parse_tls_plaintext (model single-record parser)"], funcs=["tls_parser_many"], timeout=2400, mem=28),
    H("c16", "c16_dtls_wrapper_with_model_record_parser", tier="thorough", bounds="parse_dtls_plaintext_records on <= 5 B with the single-record parser replaced by a model of 2-byte records",
      stubs=["parse_dtls_plaintext_record (model single-record parser)"], funcs=["parse_dtls_plaintext_records"], timeout=2400, mem=28),
    H("c16", "c16_tls_parser_is_parse_tls_plaintext", bounds="<= 10 B symbolic length, all bytes symbolic; content dispatcher stubbed for both", stubs=["parse_tls_record_with_header"], funcs=["tls_parser", "parse_tls_plaintext"]),
    )

# ------------------------------------------------------------------------------------------------ C17 (E1 part; E2 part in e2_props.py)
reg("C17",
    H("c17", "c17_conversions_are_identities", bounds="raw u8 / u16 symbolic over the full domain", funcs=["From/Into, Deref, AsRef, to_be_bytes, from_u16, hash_alg, sign_alg, is_reserved"]),
    H("c17", "c17_lowerhex_and_display_text", bounds="u16 symbolic over the full domain; text compared with a reference renderer", funcs=["LowerHex for TlsVersion / TlsCipherSuiteID", "Display for TlsCipherSuiteID"]),
    H("c17", "c17_record_type_display_text", bounds="u8 symbolic over the full domain; names and exact fallback text", funcs=["Display/Debug for TlsRecordType (compiled code, cross-check of E2)"], timeout=600),
    H("c17", "c17_cipher_id_debug_text", tier="thorough", bounds="u16 symbolic over the full domain through the phf lookup", funcs=["Debug for TlsCipherSuiteID"], timeout=1800, mem=16),
    )

# ------------------------------------------------------------------------------------------------ C06
def _pick(prop, names, **kw):
    idx = {h.name: h for h in PROPS[prop]}
    return [idx[n].clone(**kw) for n in names]


reg("C06",
    H("c06", "c06_raw_record", timeout=900, mem=12, bounds="one-byte-extension induction on a symbolic buffer (see harness for the size)", funcs=["raw_record"]),
    H("c06", "c06_encrypted_record", timeout=900, mem=12, bounds="one-byte-extension induction on a symbolic buffer (see harness for the size)", funcs=["encrypted_record"]),
    H("c06", "c06_dtls_record_header", timeout=900, mem=12, bounds="one-byte-extension induction on a symbolic buffer (see harness for the size)", funcs=["dtls_record_header"]),
    H("c06", "c06_dh_params", timeout=900, mem=12, bounds="one-byte-extension induction on a symbolic buffer (see harness for the size)", funcs=["dh_params"]),
    H("c06", "c06_digitally_signed", timeout=900, mem=12, bounds="one-byte-extension induction on a symbolic buffer (see harness for the size)", funcs=["digitally_signed"]),
    H("c06", "c06_digitally_signed_old", timeout=900, mem=12, bounds="one-byte-extension induction on a symbolic buffer (see harness for the size)", funcs=["digitally_signed_old"]),
    H("c06", "c06_ec_parameters", timeout=900, mem=12, bounds="one-byte-extension induction on a symbolic buffer (see harness for the size)", funcs=["ec_parameters"]),
    H("c06", "c06_ecdh_params", timeout=900, mem=12, bounds="one-byte-extension induction on a symbolic buffer (see harness for the size)", funcs=["ecdh_params"]),
    H("c06", "c06_sct", timeout=900, mem=12, bounds="one-byte-extension induction on a symbolic buffer (see harness for the size)", funcs=["sct"]),
    H("c06", "c06_msg_finished", timeout=900, mem=12, bounds="one-byte-extension induction on a symbolic buffer (see harness for the size)", funcs=["msg_finished"]),
    H("c06", "c06_msg_new_session_ticket", timeout=900, mem=12, bounds="one-byte-extension induction on a symbolic buffer (see harness for the size)", funcs=["msg_new_session_ticket"]),
    H("c06", "c06_msg_certificate_status", timeout=900, mem=12, bounds="one-byte-extension induction on a symbolic buffer (see harness for the size)", funcs=["msg_certificate_status"]),
    H("c06", "c06_msg_next_protocol", timeout=900, mem=12, bounds="one-byte-extension induction on a symbolic buffer (see harness for the size)", funcs=["msg_next_protocol"]),
    H("c06", "c06_msg_server_hello", timeout=900, mem=12, bounds="one-byte-extension induction on a symbolic buffer (see harness for the size)", funcs=["msg_server_hello"]),
    H("c06", "c06_ext_sni", timeout=900, mem=12, bounds="one-byte-extension induction on a symbolic buffer (see harness for the size)", funcs=["ext_sni"]),
    H("c06", "c06_ext_point_formats", timeout=900, mem=12, bounds="one-byte-extension induction on a symbolic buffer (see harness for the size)", funcs=["ext_point_formats"]),
    H("c06", "c06_ext_renegotiation_info", timeout=900, mem=12, bounds="one-byte-extension induction on a symbolic buffer (see harness for the size)", funcs=["ext_renegotiation_info"]),
    H("c06", "c06_ext_esni", timeout=900, mem=12, bounds="one-byte-extension induction on a symbolic buffer (see harness for the size)", funcs=["ext_esni"]),
    H("c06", "c06_ext_unknown", timeout=900, mem=12, bounds="one-byte-extension induction on a symbolic buffer (see harness for the size)", funcs=["ext_unknown"]),
    H("c06", "c06_dtls_msg_serverdone", timeout=900, mem=12, bounds="one-byte-extension induction on a symbolic buffer (see harness for the size)", funcs=["dtls_msg_serverdone"]),
    H("c06", "c06_dtls_msg_hello_verify_request", timeout=900, mem=12, bounds="one-byte-extension induction on a symbolic buffer (see harness for the size)", funcs=["dtls_msg_hello_verify_request"]),
    H("c06", "c06_tag_early_data_len2", timeout=900, mem=12, bounds="single-purpose extension parser, type/declared length concrete, content + appended byte symbolic", funcs=["tag_early_data_len2"]),
    H("c06", "c06_tag_early_data_len0", timeout=900, mem=12, bounds="single-purpose extension parser, type/declared length concrete, content + appended byte symbolic", funcs=["tag_early_data_len0"]),
    H("c06", "c06_tag_status_request_len0", timeout=900, mem=12, bounds="single-purpose extension parser, type/declared length concrete, content + appended byte symbolic", funcs=["tag_status_request_len0"]),
    H("c06", "c06_tag_max_fragment_length_len0", timeout=900, mem=12, bounds="single-purpose extension parser, type/declared length concrete, content + appended byte symbolic", funcs=["tag_max_fragment_length_len0"]),
    H("c06", "c06_tag_supported_versions_len1", timeout=900, mem=12, bounds="single-purpose extension parser, type/declared length concrete, content + appended byte symbolic", funcs=["tag_supported_versions_len1"]),
    H("c06", "c06_tag_cookie_len2", timeout=900, mem=12, bounds="single-purpose extension parser, type/declared length concrete, content + appended byte symbolic", funcs=["tag_cookie_len2"]),
    # pointer provenance (is_sub / span_is assertions) of the differential families, same bounds as there
    *_pick("C02", ["c02_raw_small", "c02_raw_cap", "c02_encrypted_small", "c02_plaintext_wiring"]),
    *_pick("C04", ["c04_certificate", "c04_certificate_status", "c04_next_protocol", "c04_e2e_certificate_status_5", "c04_e2e_next_protocol_4", "c04_dispatch_wiring"]),
    *_pick("C05", ["c05_dispatch_generic", "c05_content_sni_8", "c05_content_esni_12", "c05_list_generic"]),
    *_pick("C10", ["c10_hs_serverdone", "c10_hs_hello_verify_request"]),
    *_pick("C13", ["c13_dh_params", "c13_ec_parameters", "c13_ecdh_params", "c13_digitally_signed"]),
    *_pick("C14", ["c14_sct_single", "c14_sct_list_wiring"]),
    *_pick("C07", ["c07_lockstep_2_n3_1_2", "c07_heartbeat_e2e_cut0_pl1"]),
    )

# the single-record parsers never return Failure and frame exactly (needed by the many1 lemma): C02/C10 wiring, C03 small records
reg("C16", *_pick("C02", ["c02_plaintext_wiring", "c02_plaintext_ccs_2"]), *_pick("C10", ["c10_record_wiring_small", "c10_record_ccs"]))

# single handshake messages inside a record: framing/dispatch and two representative bodies (C04 families)
reg("C03", *_pick("C04", ["c04_dispatch_wiring", "c04_e2e_finished_3", "c04_e2e_new_session_ticket_6"]))

# ------------------------------------------------------------------------------------------------ C01
reg("C01",
    H("c01", "c01_heartbeat_any_len_argument", c01=True, timeout=900, mem=12, bounds="all Kani default checks; symbolic input (see harness)", funcs=["heartbeat_any_len_argument"]),
    H("c01", "c01_heap_certificate_chain", c01=True, timeout=900, mem=12, bounds="all Kani default checks; symbolic input (see harness)", funcs=["heap_certificate_chain"]),
    H("c01", "c01_fmt_display_only", c01=True, timeout=900, mem=12, bounds="all Kani default checks; symbolic input (see harness)", funcs=["fmt_display_only"]),
    H("c01", "c01_debug_record_header_alert_signed", c01=True, timeout=900, mem=12, bounds="all Kani default checks; symbolic input (see harness)", funcs=["debug_record_header_alert_signed"]),
    H("c01", "c01_fmt_u8_a", c01=True, timeout=900, mem=12, bounds="all Kani default checks; symbolic input (see harness)", funcs=["fmt_u8_a"]),
    H("c01", "c01_fmt_u8_b", c01=True, timeout=900, mem=12, bounds="all Kani default checks; symbolic input (see harness)", funcs=["fmt_u8_b"]),
    H("c01", "c01_fmt_u8_c", c01=True, timeout=900, mem=12, bounds="all Kani default checks; symbolic input (see harness)", funcs=["fmt_u8_c"]),
    H("c01", "c01_fmt_u16_a", c01=True, timeout=900, mem=12, bounds="all Kani default checks; symbolic input (see harness)", funcs=["fmt_u16_a"]),
    H("c01", "c01_fmt_u16_b", c01=True, timeout=900, mem=12, bounds="all Kani default checks; symbolic input (see harness)", funcs=["fmt_u16_b"]),
    H("c01", "c01_debug_ext_pre_shared_key", c01=True, tier="quick", timeout=900, mem=12, bounds="Debug formatting of a value with 2-byte symbolic slices and symbolic scalars", funcs=["<ext_pre_shared_key as Debug>::fmt"]),
    H("c01", "c01_debug_ext_key_share_old", c01=True, tier="quick", timeout=900, mem=12, bounds="Debug formatting of a value with 2-byte symbolic slices and symbolic scalars", funcs=["<ext_key_share_old as Debug>::fmt"]),
    H("c01", "c01_debug_ext_cookie", c01=True, tier="quick", timeout=900, mem=12, bounds="Debug formatting of a value with 2-byte symbolic slices and symbolic scalars", funcs=["<ext_cookie as Debug>::fmt"]),
    H("c01", "c01_debug_ext_session_ticket", c01=True, tier="quick", timeout=900, mem=12, bounds="Debug formatting of a value with 2-byte symbolic slices and symbolic scalars", funcs=["<ext_session_ticket as Debug>::fmt"]),
    H("c01", "c01_debug_ext_padding", c01=True, tier="quick", timeout=900, mem=12, bounds="Debug formatting of a value with 2-byte symbolic slices and symbolic scalars", funcs=["<ext_padding as Debug>::fmt"]),
    H("c01", "c01_debug_ext_renegotiation_info", c01=True, tier="quick", timeout=900, mem=12, bounds="Debug formatting of a value with 2-byte symbolic slices and symbolic scalars", funcs=["<ext_renegotiation_info as Debug>::fmt"]),
    H("c01", "c01_debug_ext_ec_point_formats", c01=True, tier="thorough", timeout=900, mem=12, bounds="Debug formatting of a value with 2-byte symbolic slices and symbolic scalars", funcs=["<ext_ec_point_formats as Debug>::fmt"]),
    H("c01", "c01_debug_ext_status_request", c01=True, tier="thorough", timeout=900, mem=12, bounds="Debug formatting of a value with 2-byte symbolic slices and symbolic scalars", funcs=["<ext_status_request as Debug>::fmt"]),
    H("c01", "c01_debug_ext_sct", c01=True, tier="thorough", timeout=900, mem=12, bounds="Debug formatting of a value with 2-byte symbolic slices and symbolic scalars", funcs=["<ext_sct as Debug>::fmt"]),
    H("c01", "c01_debug_ext_unknown", c01=True, tier="thorough", timeout=900, mem=12, bounds="Debug formatting of a value with 2-byte symbolic slices and symbolic scalars", funcs=["<ext_unknown as Debug>::fmt"]),
    H("c01", "c01_debug_ext_esni", c01=True, tier="thorough", timeout=900, mem=12, bounds="Debug formatting of a value with 2-byte symbolic slices and symbolic scalars", funcs=["<ext_esni as Debug>::fmt"]),
    H("c01", "c01_debug_new_session_ticket", c01=True, tier="thorough", timeout=900, mem=12, bounds="Debug formatting of a value with 2-byte symbolic slices and symbolic scalars", funcs=["<new_session_ticket as Debug>::fmt"]),
    H("c01", "c01_debug_raw_certificate", c01=True, tier="thorough", timeout=900, mem=12, bounds="Debug formatting of a value with 2-byte symbolic slices and symbolic scalars", funcs=["<raw_certificate as Debug>::fmt"]),
    H("c01", "c01_debug_client_key_exchange", c01=True, tier="thorough", timeout=900, mem=12, bounds="Debug formatting of a value with 2-byte symbolic slices and symbolic scalars", funcs=["<client_key_exchange as Debug>::fmt"]),
    H("c01", "c01_debug_digitally_signed", c01=True, tier="thorough", timeout=900, mem=12, bounds="Debug formatting of a value with 2-byte symbolic slices and symbolic scalars", funcs=["<digitally_signed as Debug>::fmt"]),
    H("c01", "c01_debug_heartbeat", c01=True, tier="thorough", timeout=900, mem=12, bounds="Debug formatting of a value with 2-byte symbolic slices and symbolic scalars", funcs=["<heartbeat as Debug>::fmt"]),
    H("c01", "c01_alloc_bound_certificate", c01=True, timeout=900, mem=12, stubs=["alloc::alloc::alloc / realloc (size assertion, then allocate)"], bounds="every allocation during the call <= 64 bytes per input byte + 1 KiB; input <= 11 B symbolic length", funcs=["parse_tls_handshake_msg_certificate"]),
    H("c01", "c01_alloc_bound_sni", c01=True, timeout=900, mem=12, stubs=["alloc::alloc::alloc / realloc (size assertion, then allocate)"], bounds="every allocation during the call <= 64 bytes per input byte + 1 KiB; input <= 10 B symbolic length", funcs=["parse_tls_extension_sni_content"]),
    H("c01", "c01_alloc_bound_sct_list", c01=True, tier="thorough", timeout=1500, mem=12, stubs=["alloc::alloc::alloc / realloc (size assertion, then allocate)"], bounds="every allocation during the call <= 64 bytes per input byte + 1 KiB; input <= 8 B symbolic length", funcs=["parse_ct_signed_certificate_timestamp_list"]),
    H("c01", "c01_alloc_bound_certificate_request", c01=True, tier="thorough", timeout=1500, mem=12, stubs=["alloc::alloc::alloc / realloc (size assertion, then allocate)"], bounds="every allocation during the call <= 64 bytes per input byte + 1 KiB; input <= 7 B symbolic length", funcs=["parse_tls_handshake_certificaterequest"]),
    # every differential harness runs with all Kani default checks; for C01 an unwinding-assertion failure is a violation too.
    # quick tier: the cheaper half; thorough tier: all of them.
    *_pick("C02", ["c02_raw_small", "c02_plaintext_wiring", "c02_plaintext_heartbeat_3"], c01=True),
    *_pick("C02", ["c02_encrypted_small", "c02_header", "c02_raw_cap"], c01=True, tier="thorough"),
    *_pick("C03", ["c03_two_appdata", "c03_two_heartbeat", "c03_two_unknown_ff", "c03_two_ccs", "c03_two_alert", "c03_handshake_list_wiring"], c01=True, tier="thorough"),
    *_pick("C04", ["c04_dispatch_wiring", "c04_new_session_ticket", "c04_hello_retry_request", "c04_certificate", "c04_certificate_status", "c04_next_protocol",
                   "c04_key_update_and_hello_request", "c04_server_key_exchange", "c04_finished", "c04_server_hello_tls12_42", "c04_server_hello_draft18_40"], c01=True),
    *_pick("C04", ["c04_client_hello_41", "c04_certificate_request_6", "c04_server_done", "c04_certificate_verify", "c04_client_key_exchange",
                   "c04_server_hello_unsupported_version"], c01=True, tier="thorough"),
    *_pick("C05", ["c05_dispatch_generic", "c05_list_generic", "c05_content_sni_8", "c05_content_esni_12", "c05_content_supported_versions_5",
                   "c05_content_status_request_4", "c05_content_early_data_2"], c01=True),
    *_pick("C05", ["c05_dispatch_client", "c05_dispatch_server", "c05_content_alpn_7", "c05_content_oid_filters_7", "c05_content_groups_6",
                   "c05_content_signature_algorithms_6", "c05_tag_sni", "c05_tag_supported_versions"], c01=True, tier="thorough"),
    *_pick("C07", ["c07_lockstep_2_n1_0_1", "c07_heartbeat_e2e_cut0_pl1", "c07_any_state_step_d0", "c07_step_at_64k_boundary"], c01=True),
    *_pick("C07", ["c07_lockstep_2_n3_1_2", "c07_any_state_step_d1", "c07_any_state_step_d2"], c01=True, tier="thorough"),
    *_pick("C10", ["c10_record_header", "c10_hs_serverdone", "c10_hs_hello_verify_request", "c10_body_certificate_10"], c01=True),
    *_pick("C10", ["c10_record_wiring_small", "c10_hs_clientkeyexchange", "c10_body_server_hello_42", "c10_record_ccs", "c10_record_alert"], c01=True, tier="thorough"),
    *_pick("C13", ["c13_dh_params", "c13_ec_parameters", "c13_ecdh_params", "c13_digitally_signed"], c01=True),
    *_pick("C13", ["c13_ecpoint", "c13_digitally_signed_old", "c13_content_and_signature_dh"], c01=True, tier="thorough"),
    *_pick("C14", ["c14_sct_list_wiring", "c14_sct_single", "c14_sct_list_one_shape"], c01=True, tier="thorough"),
    *_pick("C16", ["c16_lemma_many1_complete", "c16_tls_parser_is_parse_tls_plaintext"], c01=True, tier="thorough"),
    )

# ------------------------------------------------------------------------------------------------ C18
_C18_SETS = (("C02", ["c02_raw_small", "c02_plaintext_wiring"]),
             ("C04", ["c04_server_hello_tls12_42", "c04_hello_retry_request", "c04_new_session_ticket", "c04_certificate_status"]),
             ("C10", ["c10_record_header", "c10_hs_serverdone"]),
             ("C11", ["c11_client_hello_version_ciphers_compressions", "c11_supported_groups", "c11_digitally_signed_algorithms"]),
             ("C15", ["c15_client_hello_constructed"]),
             ("C03", ["c03_two_heartbeat", "c03_two_appdata", "c03_two_unknown_ff"]),
             ("C05", ["c05_dispatch_generic", "c05_content_sni_8", "c05_list_generic"]),
             ("C13", ["c13_dh_params", "c13_ec_parameters", "c13_digitally_signed"]))
reg("C18",
    *[h for cfg in ("default", "nostd", "serialize") for prop, names in _C18_SETS for h in _pick(prop, names, cfg=cfg)],
    *[H("c18", "c18_send_sync_and_registry_witness", cfg=cfg, timeout=600,
        bounds="compile-time Send + Sync instantiations for every public value type; one registry lookup", funcs=["(trait solver)", "TlsCipherSuite::from_id"])
      for cfg in ("default", "nostd", "serialize")],
    )



def harnesses(prop, tier):
    hs = PROPS.get(prop, [])
    if tier == "quick":
        return [h for h in hs if h.tier == "quick"]
    return list(hs)
