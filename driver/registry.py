"""Harness registry: which Kani harnesses decide which property, per tier, with their bounds.

H(module, name, ...) fields
  cfg       feature configuration of tls-parser the harness is built against: default|nostd|serialize
  timeout   per-harness solver cap in seconds
  mem       address-space cap in GB
  bounds    human-readable bound (goes verbatim into the evidence)
  stubs     list of stubbed callees (documentation; Kani's own "- Stub:" lines are checked against it)
"""


class H:
    def __init__(self, mod, name, tier="quick", cfg="default", timeout=300, mem=8, bounds="", stubs=(),
                 funcs=(), c01=False, expect_fail=False):
        self.mod, self.name, self.tier, self.cfg = mod, name, tier, cfg
        self.timeout, self.mem, self.bounds, self.stubs, self.funcs = timeout, mem, bounds, list(stubs), list(funcs)
        self.c01 = c01                  # unwinding-assertion failure counts as a violation (non-termination)
        self.expect_fail = expect_fail  # false twin: must come back FAILED (vacuity guard)

    @property
    def fq(self):
        return "%s::%s" % (self.mod, self.name)


PROPS = {}


def reg(prop, *hs):
    PROPS.setdefault(prop, []).extend(hs)


# ------------------------------------------------------------------------------------------------ C02
reg("C02",
    H("c02", "c02_raw_small", bounds="13-byte buffer, symbolic length 0..=13, all bytes symbolic; unwind 4",
      funcs=["parse_tls_raw_record", "parse_tls_record_header"]),
    H("c02", "c02_encrypted_small", bounds="13-byte buffer, symbolic length 0..=13, all bytes symbolic; unwind 4",
      funcs=["parse_tls_encrypted"]),
    H("c02", "c02_header", bounds="8-byte buffer, symbolic length", funcs=["parse_tls_record_header"]),
    H("c02", "c02_raw_cap", bounds="16650-byte zero array, symbolic 5-byte header, symbolic length 0..=16650",
      funcs=["parse_tls_raw_record"]),
    H("c02", "c02_encrypted_cap", bounds="16650-byte zero array, symbolic 5-byte header, symbolic length 0..=16650",
      funcs=["parse_tls_encrypted"]),
    )

# ------------------------------------------------------------------------------------------------ C08
reg("C08",
    H("c08", "c08_table_k00_06", bounds="25 states x kinds 0..6 x 2 dirs x sid x 256 severities; payload slices <= 2 B, lists <= 1",
      funcs=["tls_state_transition", "tls_state_transition_handshake"]),
    H("c08", "c08_table_k07_12", bounds="25 states x kinds 7..12 x 2 dirs x sid x 256 severities; payload slices <= 2 B, lists <= 1",
      funcs=["tls_state_transition", "tls_state_transition_handshake"]),
    H("c08", "c08_table_k13_20", bounds="25 states x kinds 13..20 x 2 dirs x sid x 256 severities; payload slices <= 2 B, lists <= 1",
      funcs=["tls_state_transition", "tls_state_transition_handshake"]),
    H("c08", "c08_flows_witness", bounds="three concrete documented flows of 5-11 steps, symbolic payloads",
      funcs=["tls_state_transition"]),
    )


def harnesses(prop, tier):
    hs = PROPS.get(prop, [])
    if tier == "quick":
        return [h for h in hs if h.tier == "quick"]
    return list(hs)
