"""E2: MIR -> SMT-LIB2 encoder for loop-free integer code (switchInt tables, straight-line guards).

The MIR is dumped from a scratch copy of /repo's working tree on every run
(cargo +nightly rustc -- -Zunpretty=mir), parsed at text level, symbolically executed block by block
(loop-free functions only; anything not understood makes the function 'refused', never skipped), and
emitted as bit-vector terms. Queries are the negated properties; `unsat` = holds for the whole domain,
`sat` = model value, which is replayed natively against the real crate before it is reported.
Every query is sent to z3 and to cvc5; a disagreement or an `(error` line is inconclusive.
"""
import json
import os
import re
import shutil
import subprocess
import time

# ------------------------------------------------------------------------------------------------ MIR dump


def dump_mir(repo, scratch, features=None):
    src = os.path.join(scratch, "mir-repo")
    if os.path.exists(src):
        shutil.rmtree(src)
    subprocess.check_call(["rsync", "-a", "--exclude", "target", "--exclude", ".git", repo.rstrip("/") + "/", src + "/"])
    env = dict(os.environ, CARGO_NET_OFFLINE="true", CARGO_TARGET_DIR=os.path.join(scratch, "mir-target"))
    t0 = time.time()
    feat = ["--features", features] if features else []
    p = subprocess.run(["cargo", "+nightly", "rustc", "--offline", "--lib"] + feat + ["--", "-Zunpretty=mir",
                        "-C", "debug-assertions=off", "-C", "overflow-checks=on"],
                       cwd=src, env=env, stdout=subprocess.PIPE, stderr=subprocess.PIPE, text=True)
    if p.returncode != 0 or len(p.stdout) < 1000:
        raise RuntimeError("MIR dump failed:\n" + p.stderr[-3000:])
    return p.stdout, time.time() - t0


# ------------------------------------------------------------------------------------------------ MIR text parser

ITEM_RE = re.compile(r"^(fn|const|static) (.*?)(?:\((.*?)\) -> (.*?))?(?:: (.*?))? (?:= )?\{$", re.M)


class Fn:
    def __init__(self, kind, name, header, body):
        self.kind, self.name, self.header, self.body = kind, name, header, body
        self.blocks = {}
        cur = None
        for line in body.split("\n"):
            m = re.match(r"^    (bb\d+)(?: \(cleanup\))?: \{$", line)
            if m:
                cur = m.group(1)
                self.blocks[cur] = []
                continue
            if cur is not None:
                if line.startswith("    }"):
                    cur = None
                elif line.strip():
                    self.blocks[cur].append(line.strip())


def parse_items(text):
    items = []
    # items start at column 0 with fn/const/static and end at a line "}"
    pos = 0
    for m in re.finditer(r"^(fn|const|static) [^\n]*\{\n", text, re.M):
        start = m.start()
        end = text.find("\n}\n", m.end() - 1)
        if end < 0:
            continue
        header = text[start:m.end()].rstrip("{\n ").strip()
        if header.endswith("="):
            header = header[:-1].strip()
        body = text[m.end():end + 1]
        kind = m.group(1)
        name = header[len(kind) + 1:]
        items.append(Fn(kind, name, header, body))
    return items


# ------------------------------------------------------------------------------------------------ symbolic executor

WIDTH = {"u8": 8, "u16": 16, "u32": 32, "u64": 64, "usize": 64, "i32": 32, "i8": 8, "i16": 16, "i64": 64, "isize": 64}


class Refuse(Exception):
    pass


def bv(val, w):
    return "(_ bv%d %d)" % (val % (1 << w), w)


class Val:
    """term + sort ('bv8', 'bv16', ..., 'bool', 'opt16' as (some,val))"""

    def __init__(self, term, sort):
        self.term, self.sort = term, sort


def parse_const(tok):
    m = re.match(r"^const (-?\d+)_(\w+)$", tok)
    if m and m.group(2) in WIDTH:
        w = WIDTH[m.group(2)]
        return Val(bv(int(m.group(1)), w), "bv%d" % w)
    if tok == "const true":
        return Val("true", "bool")
    if tok == "const false":
        return Val("false", "bool")
    return None


def exec_fn(fn, arg_terms, consts=None):
    """Symbolically execute a loop-free MIR body. arg_terms: {'_1.0': Val, '_1': Val, ...}.
    Returns Val for _0. Raises Refuse on anything not understood."""
    consts = consts or {}

    def operand(tok, env):
        tok = tok.strip()
        c = parse_const(tok)
        if c:
            return c
        m = re.match(r"^const (\S+)$", tok)
        if m and m.group(1) in consts:
            return consts[m.group(1)]
        m = re.match(r"^(?:copy|move) (.+)$", tok)
        if m:
            place = m.group(1).strip()
            mt = re.match(r"^\((_\d+)\.([01]): (\w+)\)$", place)
            if mt and mt.group(1) in env and env[mt.group(1)].sort == "tuple":
                return env[mt.group(1)].term[int(mt.group(2))]
            place = re.sub(r"^\(\(\*(_\d+)\)\.(\d+): \w+\)$", r"\1.\2", place)
            place = re.sub(r"^\((_\d+)\.(\d+): \w+\)$", r"\1.\2", place)
            place = re.sub(r"^\(\*(_\d+)\)$", r"\1", place)
            if place in env:
                return env[place]
            raise Refuse("unknown place %r" % place)
        raise Refuse("unknown operand %r" % tok)

    def binop(op, a, b):
        if a.sort != b.sort and not (op in ("Shr", "Shl")):
            raise Refuse("sort mismatch in %s: %s %s" % (op, a.sort, b.sort))
        w = int(a.sort[2:]) if a.sort.startswith("bv") else None
        if op in ("Shr", "Shl"):
            wb = int(b.sort[2:])
            bt = b.term
            if wb < w:
                bt = "((_ zero_extend %d) %s)" % (w - wb, bt)
            elif wb > w:
                bt = "((_ extract %d 0) %s)" % (w - 1, bt)
            return Val("(%s %s %s)" % ("bvlshr" if op == "Shr" else "bvshl", a.term, bt), a.sort)
        table = {"Ge": "bvuge", "Gt": "bvugt", "Le": "bvule", "Lt": "bvult"}
        if op in table:
            return Val("(%s %s %s)" % (table[op], a.term, b.term), "bool")
        if op == "Eq":
            return Val("(= %s %s)" % (a.term, b.term), "bool")
        if op == "Ne":
            return Val("(not (= %s %s))" % (a.term, b.term), "bool")
        arith = {"BitAnd": "bvand", "BitOr": "bvor", "BitXor": "bvxor", "Add": "bvadd", "Sub": "bvsub", "Mul": "bvmul"}
        if op in arith:
            if a.sort == "bool":
                f = {"BitAnd": "and", "BitOr": "or", "BitXor": "xor"}.get(op)
                if not f:
                    raise Refuse(op + " on bool")
                return Val("(%s %s %s)" % (f, a.term, b.term), "bool")
            return Val("(%s %s %s)" % (arith[op], a.term, b.term), a.sort)
        raise Refuse("binop " + op)

    def ite(c, a, b):
        if a.sort != b.sort:
            raise Refuse("ite sort mismatch %s %s" % (a.sort, b.sort))
        if a.sort == "opt16":
            return Val(("(ite %s %s %s)" % (c, a.term[0], b.term[0]), "(ite %s %s %s)" % (c, a.term[1], b.term[1])), "opt16")
        return Val("(ite %s %s %s)" % (c, a.term, b.term), a.sort)

    def run(bbname, env, depth):
        if depth > 400:
            raise Refuse("too deep (loop?)")
        env = dict(env)
        stmts = fn.blocks.get(bbname)
        if stmts is None:
            raise Refuse("no block " + bbname)
        for st in stmts:
            st = st.rstrip(";")
            if st.startswith(("StorageLive", "StorageDead", "nop", "FakeRead", "PlaceMention", "Retag", "debug ", "// ")):
                continue
            if st == "return":
                if "_0" not in env:
                    raise Refuse("return without _0")
                return env["_0"]
            m = re.match(r"^goto -> (bb\d+)$", st)
            if m:
                return run(m.group(1), env, depth + 1)
            m = re.match(r"^assert\((!?)((?:move|copy) (?:_\d+|\(_\d+\.[01]: \w+\))), .*\) -> \[success: (bb\d+), unwind", st)
            if m:
                # overflow / shift assertion: must be valid, emitted as a side obligation
                c = operand(m.group(2), env)
                if c is None:
                    raise Refuse("assert on unknown")
                env.setdefault("__asserts", [])
                env["__asserts"] = env["__asserts"] + [("(not %s)" % c.term) if m.group(1) else c.term]
                return run(m.group(3), env, depth + 1)
            m = re.match(r"^switchInt\((.*)\) -> \[(.*)\]$", st)
            if m:
                d = operand(m.group(1), env)
                arms = [a.strip() for a in m.group(2).split(",")]
                other = None
                cases = []
                for a in arms:
                    k, t = [x.strip() for x in a.split(":")]
                    if k == "otherwise":
                        other = t
                    else:
                        cases.append((int(k), t))
                if other is None:
                    raise Refuse("switchInt without otherwise")
                res = run(other, env, depth + 1)
                for k, t in reversed(cases):
                    if d.sort == "bool":
                        cond = d.term if k != 0 else "(not %s)" % d.term
                    else:
                        cond = "(= %s %s)" % (d.term, bv(k, int(d.sort[2:])))
                    res = ite(cond, run(t, env, depth + 1), res)
                return res
            m = re.match(r"^(_\d+) = (.*)$", st)
            if not m:
                raise Refuse("statement %r" % st)
            dst, rhs = m.group(1), m.group(2).strip()
            mm = re.match(r"^(\w+)\((.*), (.*)\)$", rhs)
            if mm and mm.group(1) in ("Ge", "Gt", "Le", "Lt", "Eq", "Ne", "Shr", "Shl", "BitAnd", "BitOr", "BitXor", "Add", "Sub", "Mul"):
                env[dst] = binop(mm.group(1), operand(mm.group(2), env), operand(mm.group(3), env))
                continue
            mm = re.match(r"^(Add|Sub|Mul)WithOverflow\((.*), (.*)\)$", rhs)
            if mm:
                a, b2 = operand(mm.group(2), env), operand(mm.group(3), env)
                w = int(a.sort[2:])
                op = {"Add": "bvadd", "Sub": "bvsub", "Mul": "bvmul"}[mm.group(1)]
                wide = {"Add": "bvadd", "Sub": "bvsub", "Mul": "bvmul"}[mm.group(1)]
                val = "(%s %s %s)" % (op, a.term, b2.term)
                za, zb = "((_ zero_extend %d) %s)" % (w, a.term), "((_ zero_extend %d) %s)" % (w, b2.term)
                if mm.group(1) == "Sub":
                    ovf = "(bvult %s %s)" % (a.term, b2.term)
                else:
                    ovf = "(not (= ((_ extract %d %d) (%s %s %s)) %s))" % (2 * w - 1, w, wide, za, zb, bv(0, w))
                env[dst] = Val((Val(val, a.sort), Val(ovf, "bool")), "tuple")
                continue
            mm = re.match(r"^(.*) as (\w+) \(IntToInt\)$", rhs)
            if mm:
                v = operand(mm.group(1), env)
                w0, w1 = int(v.sort[2:]), WIDTH[mm.group(2)]
                if w1 == w0:
                    env[dst] = Val(v.term, "bv%d" % w1)
                elif w1 < w0:
                    env[dst] = Val("((_ extract %d 0) %s)" % (w1 - 1, v.term), "bv%d" % w1)
                else:
                    env[dst] = Val("((_ zero_extend %d) %s)" % (w1 - w0, v.term), "bv%d" % w1)
                continue
            mm = re.match(r"^Option::<u16>::Some\((.*)\)$", rhs)
            if mm:
                v = operand(mm.group(1), env)
                env[dst] = Val(("true", v.term), "opt16")
                continue
            if rhs == "Option::<u16>::None":
                env[dst] = Val(("false", bv(0, 16)), "opt16")
                continue
            mm = re.match(r"^Not\((.*)\)$", rhs)
            if mm:
                v = operand(mm.group(1), env)
                env[dst] = Val("(not %s)" % v.term, "bool") if v.sort == "bool" else Val("(bvnot %s)" % v.term, v.sort)
                continue
            try:
                env[dst] = operand(rhs, env)
                continue
            except Refuse:
                pass
            raise Refuse("rvalue %r" % rhs)
        raise Refuse("block %s fell through" % bbname)

    return run("bb0", dict(arg_terms), 0)


# ------------------------------------------------------------------------------------------------ solver front end


class Solvers:
    def __init__(self, scratch):
        self.scratch = scratch
        self.n = 0
        self.time = 0.0
        self.log = []

    def check(self, decls, asserts, label):
        """Returns ('unsat'|'sat'|'inconclusive', model_text)."""
        script = "(set-logic ALL)\n(set-option :produce-models true)\n" + "\n".join(decls) + "\n" + \
                 "\n".join("(assert %s)" % a for a in asserts) + "\n(check-sat)\n(get-model)\n"
        self.n += 1
        path = os.path.join(self.scratch, "q%04d.smt2" % self.n)
        open(path, "w").write(script)
        outs = {}
        t0 = time.time()
        for name, cmd in (("z3", ["z3", "-T:60", path]), ("cvc5", ["cvc5", "--lang", "smt2", "--tlimit=60000", "--produce-models", path])):
            try:
                p = subprocess.run(cmd, stdout=subprocess.PIPE, stderr=subprocess.STDOUT, text=True, timeout=90)
                outs[name] = p.stdout
            except Exception as e:  # noqa
                outs[name] = "(error \"%s\")" % e
        self.time += time.time() - t0
        verdicts = {}
        for name, o in outs.items():
            first = o.strip().split("\n")[0].strip() if o.strip() else ""
            if first == "unsat":
                # an error after unsat only concerns (get-model); errors before the verdict are fatal
                verdicts[name] = "unsat"
            elif first == "sat" and "(error" not in o.split("sat", 1)[0]:
                verdicts[name] = "sat"
            else:
                verdicts[name] = "inconclusive"
        self.log.append({"label": label, "z3": verdicts["z3"], "cvc5": verdicts["cvc5"]})
        if verdicts["z3"] == verdicts["cvc5"] and verdicts["z3"] in ("sat", "unsat"):
            return verdicts["z3"], outs["z3"]
        return "inconclusive", json.dumps(verdicts) + "\n" + outs["z3"][:500] + "\n" + outs["cvc5"][:500]


def model_value(model_text, var):
    m = re.search(r"\(define-fun %s \(\) \(_ BitVec \d+\)\s+#([xb])([0-9a-fA-F]+)\)" % re.escape(var), model_text)
    if not m:
        return None
    return int(m.group(2), 16 if m.group(1) == "x" else 2)


# ------------------------------------------------------------------------------------------------ native replay


def native_eval(repo, scratch, exprs, features=None):
    """Compile and run a tiny program against the real crate printing one line per expression."""
    d = os.path.join(scratch, "e2replay")
    os.makedirs(os.path.join(d, "src"), exist_ok=True)
    open(os.path.join(d, "Cargo.toml"), "w").write(
        '[package]\nname = "e2replay"\nversion = "0.0.0"\nedition = "2021"\n[dependencies]\ntls-parser = { path = "%s"%s }\n[workspace]\n' % (repo, (', features = ["%s"]' % features) if features else ""))
    shutil.copy(os.path.join(repo, "Cargo.lock"), os.path.join(d, "Cargo.lock"))
    body = "\n".join('    println!("{}", %s);' % e for e in exprs)
    open(os.path.join(d, "src", "main.rs"), "w").write("#![allow(unused_imports)]\nuse tls_parser::*;\nfn main() {\n%s\n}\n" % body)
    env = dict(os.environ, CARGO_NET_OFFLINE="true", CARGO_TARGET_DIR=os.path.join(scratch, "e2replay-target"),
               RUSTFLAGS="--cfg tls_parser_verif")
    p = subprocess.run(["cargo", "run", "--offline", "-q"], cwd=d, env=env, stdout=subprocess.PIPE, stderr=subprocess.PIPE, text=True)
    if p.returncode != 0:
        return None, p.stderr[-2000:]
    return p.stdout.strip().split("\n"), ""


# ------------------------------------------------------------------------------------------------ property drivers

def run(prop, tier, repo, verif, scratch, seed):
    import e2_props
    return e2_props.run(prop, tier, repo, verif, scratch, seed)


def replay(d, repo, verif, scratch):
    import e2_props
    return e2_props.replay(d, repo, verif, scratch)
