//! C15 — hello accessors and constructors reflect the parsed fields.
use crate::oracle::*;
use crate::util::*;
use crate::{vassert, vcover};
use alloc::vec::Vec;
use core::mem::ManuallyDrop;
use tls_parser as tp;
use tp::{ClientHello, TlsCipherSuite, TlsCipherSuiteID, TlsCompressionID};

fn same_slice(a: &[u8], b: &[u8]) -> bool {
    a.as_ptr() == b.as_ptr() && a.len() == b.len()
}
fn same_opt(a: Option<&[u8]>, b: Option<&[u8]>) -> bool {
    match (a, b) {
        (Some(x), Some(y)) => same_slice(x, y),
        (None, None) => true,
        _ => false,
    }
}
fn same_suite(a: Option<&'static TlsCipherSuite>, b: Option<&'static TlsCipherSuite>) -> bool {
    match (a, b) {
        (Some(x), Some(y)) => core::ptr::eq(x, y),
        (None, None) => true,
        _ => false,
    }
}

fn check_trait_accessors<'a, T: ClientHello<'a>>(
    ch: &T,
    version: u16,
    random: &'a [u8],
    sid: Option<&'a [u8]>,
    ext: Option<&'a [u8]>,
    ciphers: &Vec<TlsCipherSuiteID>,
    comp: &Vec<TlsCompressionID>,
) {
    vassert!(ch.version().0 == version, "C15.accessor.version");
    vassert!(same_slice(ch.random(), random), "C15.accessor.random");
    vassert!(same_opt(ch.session_id(), sid), "C15.accessor.session_id");
    vassert!(same_opt(ch.ext(), ext), "C15.accessor.ext");
    vassert!(core::ptr::eq(ch.ciphers(), ciphers), "C15.accessor.ciphers");
    vassert!(core::ptr::eq(ch.comp(), comp), "C15.accessor.comp");
    if random.len() >= 4 {
        // first four bytes / the remaining bytes (28 of them for the standard 32-byte random)
        vassert!(ch.rand_time() == be32(random, 0), "C15.accessor.rand_time_is_be_u32_of_first_four_random_bytes");
        let rb = ch.rand_bytes();
        vassert!(rb.len() == random.len() - 4 && rb.as_ptr() == random[4..].as_ptr(), "C15.accessor.rand_bytes_are_the_remaining_bytes");
        vcover!(random.len() == 32 && ch.rand_time() == 0xdead_beef, "C15.cover.rand_time_nonzero");
        vcover!(random.len() == 34, "C15.cover.long_random");
        vcover!(matches!(sid, Some(x) if x.len() == 0), "C15.cover.present_but_empty_session_id");
    } else {
        // fewer than four bytes: the property defines no value; the calls must return
        let _ = ch.rand_time();
        let _ = ch.rand_bytes();
        vcover!(random.len() == 3, "C15.cover.short_random");
    }
}

/// Constructed TLS ClientHello: new() stores its arguments; accessors return them.
#[kani::proof]
#[kani::unwind(4)]
fn c15_client_hello_constructed() {
    let pool: [u8; 40] = kani::any();
    let rl: usize = kani::any();
    kani::assume(rl <= 34);
    let random = &pool[..rl];
    // session id / extension block: absent, present-but-empty, or present with bytes
    let sl: usize = kani::any();
    let el: usize = kani::any();
    kani::assume(sl <= 2 && el <= 4);
    let sid = if kani::any() { Some(&pool[34..34 + sl]) } else { None };
    let ext = if kani::any() { Some(&pool[36..36 + el]) } else { None };
    let v: u16 = kani::any();
    let mut ciphers = Vec::new();
    if kani::any() {
        ciphers.push(TlsCipherSuiteID(kani::any()));
    }
    let mut comp = Vec::new();
    if kani::any() {
        comp.push(TlsCompressionID(kani::any()));
    }
    let c0 = ciphers.first().map(|c| c.0);
    let m0 = comp.first().map(|c| c.0);
    let ch = ManuallyDrop::new(tp::TlsClientHelloContents::new(v, random, sid, ciphers, comp, ext));
    vassert!(ch.get_version().0 == v, "C15.new.get_version_returns_argument");
    vassert!(ch.ciphers.first().map(|c| c.0) == c0 && ch.comp.first().map(|c| c.0) == m0, "C15.new.lists_stored_unchanged");
    check_trait_accessors(&*ch, v, random, sid, ext, &ch.ciphers, &ch.comp);
}

/// cipher_suites() / get_ciphers() map each advertised id, in order, to its registry entry or None.
#[kani::proof]
#[kani::unwind(6)]
fn c15_client_hello_cipher_lookup() {
    let id0: u16 = kani::any();
    let mut ciphers = Vec::with_capacity(2);
    ciphers.push(TlsCipherSuiteID(id0));
    ciphers.push(TlsCipherSuiteID(0x1301));
    let rnd = [0u8; 32];
    let ch = ManuallyDrop::new(tp::TlsClientHelloContents::new(0x0303, &rnd, None, ciphers, Vec::new(), None));
    let a = ManuallyDrop::new(ch.cipher_suites());
    let b = ManuallyDrop::new(ch.get_ciphers());
    let want0 = TlsCipherSuite::from_id(id0);
    let want1 = TlsCipherSuite::from_id(0x1301);
    vassert!(a.len() == 2 && b.len() == 2, "C15.lookup.one_entry_per_advertised_id");
    vassert!(same_suite(a[0], want0) && same_suite(a[1], want1), "C15.lookup.cipher_suites_in_order");
    vassert!(same_suite(b[0], want0) && same_suite(b[1], want1), "C15.lookup.get_ciphers_in_order");
    vassert!(want1.is_some(), "C15.lookup.registered_id_found");
    vcover!(want0.is_none(), "C15.cover.unregistered_id_maps_to_none");
    vcover!(want0.is_some() && id0 != 0x1301, "C15.cover.registered_id");
}

/// ServerHello constructor, get_version, get_cipher.
#[kani::proof]
#[kani::unwind(4)]
fn c15_server_hello_constructed() {
    let pool: [u8; 38] = kani::any();
    let sl: usize = kani::any();
    let el: usize = kani::any();
    kani::assume(sl <= 2 && el <= 4);
    let sid = if kani::any() { Some(&pool[32..32 + sl]) } else { None };
    let ext = if kani::any() { Some(&pool[34..34 + el]) } else { None };
    let v: u16 = kani::any();
    let c: u16 = kani::any();
    let m: u8 = kani::any();
    let sh = tp::TlsServerHelloContents::new(v, &pool[..32], sid, c, m, ext);
    vassert!(sh.get_version().0 == v && sh.version.0 == v, "C15.sh.version_stored");
    vassert!(sh.cipher.0 == c && sh.compression.0 == m, "C15.sh.cipher_and_compression_stored");
    vassert!(same_slice(sh.random, &pool[..32]) && same_opt(sh.session_id, sid) && same_opt(sh.ext, ext), "C15.sh.slices_stored");
    vassert!(same_suite(sh.get_cipher(), TlsCipherSuite::from_id(c)), "C15.sh.get_cipher_is_registry_entry_or_none");
    vcover!(sh.get_cipher().is_some(), "C15.cover.sh_registered_cipher");
    vcover!(sh.get_cipher().is_none(), "C15.cover.sh_unregistered_cipher");
}

/// DTLS ClientHello (public fields) through the shared trait.
#[kani::proof]
#[kani::unwind(4)]
fn c15_dtls_client_hello_constructed() {
    let pool: [u8; 42] = kani::any();
    let rl: usize = kani::any();
    kani::assume(rl <= 34);
    let random = &pool[..rl];
    let sid = if kani::any() { Some(&pool[34..36]) } else { None };
    let ext = if kani::any() { Some(&pool[36..40]) } else { None };
    let v: u16 = kani::any();
    let mut ciphers = Vec::new();
    if kani::any() {
        ciphers.push(TlsCipherSuiteID(kani::any()));
    }
    let ch = ManuallyDrop::new(tp::DTLSClientHello {
        version: tp::TlsVersion(v),
        random,
        session_id: sid,
        cookie: &pool[40..42],
        ciphers,
        comp: Vec::new(),
        ext,
    });
    check_trait_accessors(&*ch, v, random, sid, ext, &ch.ciphers, &ch.comp);
}

/// Parsed TLS ClientHello: accessors reflect the wire fields.
#[kani::proof]
#[kani::unwind(6)]
fn c15_client_hello_parsed() {
    // version, random(32), sid len 2, 1 cipher, 1 compression, no extensions
    let mut b: [u8; 2 + 32 + 1 + 2 + 2 + 2 + 1 + 1] = kani::any();
    b[34] = 2;
    b[37] = 0;
    b[38] = 2;
    b[41] = 1;
    let r = ManuallyDrop::new(tp::parse_tls_handshake_client_hello(&b));
    vassert!(r.is_ok(), "C15.parsed.accepted");
    if let Ok((_, ch)) = &*r {
        vassert!(ch.version().0 == be16(&b, 0), "C15.parsed.version");
        vassert!(same_slice(ch.random(), &b[2..34]), "C15.parsed.random_is_the_32_wire_bytes");
        vassert!(ch.rand_time() == be32(&b, 2), "C15.parsed.rand_time_is_be_u32_of_first_four_random_bytes");
        vassert!(same_slice(ch.rand_bytes(), &b[6..34]), "C15.parsed.rand_bytes_are_the_remaining_28");
        vassert!(same_opt(ch.session_id(), Some(&b[35..37])), "C15.parsed.session_id");
        vassert!(ch.ciphers().len() == 1 && ch.ciphers()[0].0 == be16(&b, 39), "C15.parsed.ciphers");
        vassert!(ch.comp().len() == 1 && ch.comp()[0].0 == b[42], "C15.parsed.comp");
        vassert!(ch.ext().is_none(), "C15.parsed.ext");
        vcover!(ch.rand_time() == 0x0102_0304, "C15.cover.parsed_rand_time");
    }
}

/// Parsed DTLS ClientHello through the shared trait.
#[kani::proof]
#[kani::unwind(6)]
fn c15_dtls_client_hello_parsed() {
    // handshake header (12) + version, random(32), sid len 0, cookie len 1, 1 cipher, 1 compression
    const BL: usize = 2 + 32 + 1 + 1 + 1 + 2 + 2 + 1 + 1;
    let mut b: [u8; 12 + BL] = kani::any();
    b[0] = 1;
    b[1] = 0; b[2] = 0; b[3] = BL as u8;
    b[6] = 0; b[7] = 0; b[8] = 0;
    b[9] = 0; b[10] = 0; b[11] = BL as u8;
    b[12 + 34] = 0;
    b[12 + 35] = 1;
    b[12 + 37] = 0;
    b[12 + 38] = 2;
    b[12 + 41] = 1;
    let r = ManuallyDrop::new(tp::parse_dtls_message_handshake(&b));
    vassert!(r.is_ok(), "C15.dtlsparsed.accepted");
    if let Ok((_, tp::DTLSMessage::Handshake(hm))) = &*r {
        if let tp::DTLSMessageHandshakeBody::ClientHello(ch) = &hm.body {
            vassert!(ch.version().0 == be16(&b, 12), "C15.dtlsparsed.version");
            vassert!(same_slice(ch.random(), &b[14..46]), "C15.dtlsparsed.random_is_the_32_wire_bytes");
            vassert!(ch.rand_time() == be32(&b, 14), "C15.dtlsparsed.rand_time_is_be_u32_of_first_four_random_bytes");
            vassert!(same_slice(ch.rand_bytes(), &b[18..46]), "C15.dtlsparsed.rand_bytes_are_the_remaining_28");
            vassert!(ch.session_id().is_none() && ch.ext().is_none(), "C15.dtlsparsed.absent_fields");
            vassert!(ch.ciphers().len() == 1 && ch.ciphers()[0].0 == be16(&b, 12 + 39), "C15.dtlsparsed.ciphers");
            vassert!(ch.comp().len() == 1 && ch.comp()[0].0 == b[12 + 42], "C15.dtlsparsed.comp");
            vcover!(true, "C15.cover.dtls_parsed");
        } else {
            vassert!(false, "C15.dtlsparsed.variant");
        }
    }
}
