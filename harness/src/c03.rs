//! C03 — a record's payload decodes to exactly its messages, in order.
use crate::oracle::*;
use crate::util::*;
use crate::{vassert, vcover};
use alloc::vec::Vec;
use core::mem::ManuallyDrop;
use tls_parser as tp;
use tp::nom::error::ErrorKind;
use tp::nom::{Err, IResult, Needed};
use tp::{TlsMessage, TlsRecordHeader, TlsRecordType, TlsVersion};

type Msgs<'a> = ManuallyDrop<IResult<&'a [u8], Vec<TlsMessage<'a>>>>;

fn hdr(ty: u8, n: usize) -> TlsRecordHeader {
    TlsRecordHeader { record_type: TlsRecordType(ty), version: TlsVersion(kani::any()), len: n as u16 }
}

/// What a check looks at: outcome class and, on Ok, remainder + messages.
pub struct View<'a, 'b> {
    pub ok: Option<(&'a [u8], &'b Vec<TlsMessage<'a>>)>,
    pub class: Class,
}
impl<'a, 'b> View<'a, 'b> {
    fn is_ok(&self) -> bool { self.ok.is_some() }
    fn is_err(&self) -> bool { self.ok.is_none() }
}
fn view2<'a, 'b>(r: &'b IResult<&'a [u8], Vec<TlsMessage<'a>>>) -> View<'a, 'b> {
    View { ok: match r { Ok((rem, v)) => Some((*rem, v)), _ => None }, class: class(r) }
}
fn view1<'a, 'b>(r: &'b IResult<&'a [u8], tp::TlsPlaintext<'a>>) -> View<'a, 'b> {
    View { ok: match r { Ok((rem, p)) => Some((*rem, &p.msg)), _ => None }, class: class(r) }
}

// ---------------------------------------------------------------------------- oracles per type

/// ChangeCipherSpec payload: maximal run of 0x01 bytes.
fn check_ccs(p: &[u8], r: &View, two_step: bool, lbl_ok: bool) {
    let mut k = 0;
    while k < p.len() && p[k] == 0x01 {
        k += 1;
    }
    if k == 0 {
        vassert!(r.is_err(), "C03.ccs.empty_or_malformed_first.rejected");
        vassert!(r.class != Class::Incomplete || two_step, "C03.ccs.reject_is_error");
        vcover!(p.len() == 0, "C03.ccs.cover.empty_payload");
        vcover!(p.len() > 0, "C03.ccs.cover.first_malformed");
    } else {
        vassert!(r.is_ok(), "C03.ccs.wellformed_prefix.accepted");
        if let Some((rem, v)) = r.ok {
            vassert!(v.len() == k, "C03.ccs.message_count");
            let mut j = 0;
            while j < v.len() {
                vassert!(matches!(v[j], TlsMessage::ChangeCipherSpec), "C03.ccs.message_kind");
                j += 1;
            }
            if two_step {
                vassert!(is_sub(p, rem, k, p.len() - k), "C03.ccs.two_step_remainder_is_undecoded_tail");
            }
            vcover!(k == 2 && p.len() > k, "C03.ccs.cover.two_messages_then_garbage");
            vcover!(k == p.len(), "C03.ccs.cover.all_consumed");
        }
    }
    let _ = lbl_ok;
}

/// Alert payload: floor(n/2) (level, description) pairs.
fn check_alert(p: &[u8], r: &View, two_step: bool) {
    let k = p.len() / 2;
    if k == 0 {
        vassert!(r.is_err(), "C03.alert.empty_or_cut_short.rejected");
        vcover!(p.len() == 1, "C03.alert.cover.cut_short");
    } else {
        vassert!(r.is_ok(), "C03.alert.wellformed_prefix.accepted");
        if let Some((rem, v)) = r.ok {
            vassert!(v.len() == k, "C03.alert.message_count");
            let mut j = 0;
            while j < v.len() {
                match &v[j] {
                    TlsMessage::Alert(a) => {
                        vassert!(a.severity.0 == p[2 * j], "C03.alert.level_exact");
                        vassert!(a.code.0 == p[2 * j + 1], "C03.alert.description_exact");
                    }
                    _ => vassert!(false, "C03.alert.message_kind"),
                }
                j += 1;
            }
            if two_step {
                vassert!(is_sub(p, rem, 2 * k, p.len() - 2 * k), "C03.alert.two_step_remainder_is_undecoded_tail");
            }
            vcover!(k == 2, "C03.alert.cover.two_alerts");
            vcover!(p.len() % 2 == 1, "C03.alert.cover.odd_tail");
        }
    }
}

/// Application data: one opaque blob = the whole payload, any length including 0.
fn check_appdata(p: &[u8], r: &View, two_step: bool) {
    vassert!(r.is_ok(), "C03.appdata.accepted_for_any_length");
    if let Some((rem, v)) = r.ok {
        vassert!(v.len() == 1, "C03.appdata.exactly_one_blob");
        if v.len() == 1 {
            match &v[0] {
                TlsMessage::ApplicationData(d) => {
                    vassert!(is_sub(p, d.blob, 0, p.len()), "C03.appdata.blob_is_whole_payload");
                }
                _ => vassert!(false, "C03.appdata.message_kind"),
            }
        }
        if two_step {
            vassert!(rem.len() == 0, "C03.appdata.two_step_remainder_empty");
        }
        vcover!(p.len() == 0, "C03.appdata.cover.empty_blob");
        vcover!(p.len() > 1, "C03.appdata.cover.nonempty_blob");
    }
}

/// Heartbeat: type u8, payload_length u16, payload, padding (= remainder).
fn check_heartbeat(p: &[u8], r: &View, two_step: bool) {
    let n = p.len();
    let wf = n >= 3 && (be16(p, 1) as usize) <= n - 3;
    if !wf {
        vassert!(r.is_err(), "C03.heartbeat.cut_short.rejected");
        vcover!(n >= 3, "C03.heartbeat.cover.payload_length_overruns");
        vcover!(n < 3, "C03.heartbeat.cover.header_cut_short");
    } else {
        let pl = be16(p, 1) as usize;
        vassert!(r.is_ok(), "C03.heartbeat.wellformed.accepted");
        if let Some((rem, v)) = r.ok {
            vassert!(v.len() == 1, "C03.heartbeat.exactly_one_message");
            if v.len() == 1 {
                match &v[0] {
                    TlsMessage::Heartbeat(h) => {
                        vassert!(h.heartbeat_type.0 == p[0], "C03.heartbeat.type_exact");
                        vassert!(h.payload_len as usize == pl, "C03.heartbeat.payload_len_exact");
                        vassert!(is_sub(p, h.payload, 3, pl), "C03.heartbeat.payload_exact");
                    }
                    _ => vassert!(false, "C03.heartbeat.message_kind"),
                }
            }
            if two_step {
                vassert!(is_sub(p, rem, 3 + pl, n - 3 - pl), "C03.heartbeat.two_step_remainder_is_padding");
            }
            vcover!(pl > 0 && n > 3 + pl, "C03.heartbeat.cover.payload_and_padding");
        }
    }
}

// ---------------------------------------------------------------------------- two-step API
// parse_tls_record_with_header(payload, &hdr) with a concrete content type; payload length symbolic.

macro_rules! two_step {
    ($name:ident, $ty:expr, $n:expr, $unw:expr, $check:ident $(, $extra:expr)?) => {
        #[kani::proof]
        #[kani::unwind($unw)]
        fn $name() {
            let buf: [u8; $n] = kani::any();
            let n: usize = kani::any();
            kani::assume(n <= $n);
            let p = &buf[..n];
            let h = hdr($ty, n);
            let r: Msgs = ManuallyDrop::new(tp::parse_tls_record_with_header(p, &h));
            $check(p, &view2(&r), true $(, $extra)?);
        }
    };
}
two_step!(c03_two_ccs, 0x14, 4, 7, check_ccs, true);
two_step!(c03_two_alert, 0x15, 5, 6, check_alert);
two_step!(c03_two_appdata, 0x17, 4, 6, check_appdata);
two_step!(c03_two_heartbeat, 0x18, 8, 6, check_heartbeat);

/// Unknown content types are rejected with an error, whatever the payload.
macro_rules! two_step_unknown {
    ($name:ident, $ty:expr) => {
        #[kani::proof]
        #[kani::unwind(4)]
        fn $name() {
            let buf: [u8; 3] = kani::any();
            let n: usize = kani::any();
            kani::assume(n <= 3);
            let p = &buf[..n];
            let h = hdr($ty, n);
            let r: Msgs = ManuallyDrop::new(tp::parse_tls_record_with_header(p, &h));
            vassert!(r.is_err() && class(&r) != Class::Incomplete, "C03.unknown_content_type.rejected_with_error");
            vcover!(n > 0, "C03.unknown.cover.nonempty");
        }
    };
}
two_step_unknown!(c03_two_unknown_00, 0x00);
two_step_unknown!(c03_two_unknown_13, 0x13);
two_step_unknown!(c03_two_unknown_19, 0x19);
two_step_unknown!(c03_two_unknown_ff, 0xff);

// ---------------------------------------------------------------------------- one-step == two-step
// Content type and record length concrete (rule R2), payload, version and trailing bytes symbolic.

macro_rules! one_step {
    ($name:ident, $ty:expr, $len:expr, $unw:expr, $check:ident $(, $extra:expr)?) => {
        /// One-step parse compared with the same oracle as the two-step parse (`c03_two_*`): both
        /// equal the oracle's message list on the same payload bytes (slices by pointer), hence
        /// each other.
        #[kani::proof]
        #[kani::unwind($unw)]
        fn $name() {
            const L: usize = $len;
            let mut buf: [u8; 5 + L + 1] = kani::any();
            buf[0] = $ty;
            buf[3] = 0;
            buf[4] = L as u8;
            let b = &buf[..];
            let one = ManuallyDrop::new(tp::parse_tls_plaintext(b));
            let payload = &b[5..5 + L];
            $check(payload, &view1(&one), false $(, $extra)?);
            if let Ok((rem1, p1)) = &*one {
                vassert!(is_sub(b, rem1, 5 + L, 1), "C03.one_step.remainder_after_record");
                vassert!(p1.hdr.record_type.0 == $ty && p1.hdr.version.0 == be16(b, 1) && p1.hdr.len as usize == L,
                         "C03.one_step.header_exact");
                vcover!(true, "C03.one_step.cover.ok");
            } else {
                vassert!(class(&one) != Class::Incomplete, "C03.one_step.reject_is_error_not_incomplete");
            }
        }
    };
}
one_step!(c03_one_ccs_0, 0x14, 0, 5, check_ccs, true);
one_step!(c03_one_ccs_1, 0x14, 1, 5, check_ccs, true);
one_step!(c03_one_ccs_2, 0x14, 2, 6, check_ccs, true);
one_step!(c03_one_alert_1, 0x15, 1, 5, check_alert);
one_step!(c03_one_alert_2, 0x15, 2, 5, check_alert);
one_step!(c03_one_alert_3, 0x15, 3, 5, check_alert);
one_step!(c03_one_appdata_0, 0x17, 0, 5, check_appdata);
one_step!(c03_one_appdata_1, 0x17, 1, 5, check_appdata);
one_step!(c03_one_appdata_3, 0x17, 3, 5, check_appdata);
one_step!(c03_one_heartbeat_2, 0x18, 2, 5, check_heartbeat);
one_step!(c03_one_heartbeat_3, 0x18, 3, 5, check_heartbeat);
one_step!(c03_one_heartbeat_4, 0x18, 4, 5, check_heartbeat);
one_step!(c03_one_heartbeat_6, 0x18, 6, 5, check_heartbeat);

// ---------------------------------------------------------------------------- handshake list logic
// parse_tls_record_with_header(type 22) = many1(complete(parse_tls_message_handshake)) with every body
// parser replaced by the C04 marker stubs: order, count, stop at the first malformed / cut-short
// message, undecoded tail as remainder; message types and 24-bit length fields symbolic.
use crate::c04::*;
use tp::TlsMessageHandshake as HS;

#[kani::proof]
#[kani::unwind(5)]
#[kani::stub(tp::parse_tls_handshake_msg_hello_request, st_hello_request)]
#[kani::stub(tp::parse_tls_handshake_msg_client_hello, st_client_hello)]
#[kani::stub(tp::parse_tls_handshake_msg_server_hello, st_server_hello)]
#[kani::stub(tp::parse_tls_handshake_msg_newsessionticket, st_nst)]
#[kani::stub(tp::parse_tls_handshake_msg_hello_retry_request, st_hrr)]
#[kani::stub(tp::parse_tls_handshake_msg_certificate, st_cert)]
#[kani::stub(tp::parse_tls_handshake_msg_serverkeyexchange, st_ske)]
#[kani::stub(tp::parse_tls_handshake_msg_certificaterequest, st_certreq)]
#[kani::stub(tp::parse_tls_handshake_msg_serverdone, st_done)]
#[kani::stub(tp::parse_tls_handshake_msg_certificateverify, st_certverify)]
#[kani::stub(tp::parse_tls_handshake_msg_clientkeyexchange, st_cke)]
#[kani::stub(tp::parse_tls_handshake_msg_finished, st_finished)]
#[kani::stub(tp::parse_tls_handshake_msg_certificatestatus, st_certstatus)]
#[kani::stub(tp::parse_tls_handshake_msg_key_update, st_keyupdate)]
#[kani::stub(tp::parse_tls_handshake_msg_next_protocol, st_npn)]
fn c03_handshake_list_wiring() {
    let buf: [u8; 9] = kani::any();
    let n: usize = kani::any();
    kani::assume(n <= 9);
    let p = &buf[..n];
    unsafe {
        M_FAIL = false;
    }
    let h = hdr(0x16, n);
    let r: Msgs = ManuallyDrop::new(tp::parse_tls_record_with_header(p, &h));
    // reference: maximal prefix of well-framed messages of known type
    let mut pos = 0;
    let mut k = 0;
    let mut types = [0u8; 3];
    while pos + 4 <= n {
        let t = p[pos];
        let hl = be24(p, pos + 1) as usize;
        if hl > n - pos - 4 || !is_known(t) {
            break;
        }
        if k < 3 {
            types[k] = t;
        }
        k += 1;
        pos += 4 + hl;
    }
    if k == 0 {
        vassert!(r.is_err(), "C03.handshake.empty_or_first_message_malformed_or_cut_short.rejected");
        vcover!(n == 0, "C03.handshake.cover.empty_payload");
        vcover!(n >= 4, "C03.handshake.cover.first_message_bad");
    } else {
        vassert!(r.is_ok(), "C03.handshake.wellformed_prefix.accepted");
        if let Ok((rem, v)) = &*r {
            vassert!(v.len() == k, "C03.handshake.message_count");
            let mut j = 0;
            while j < v.len() && j < 3 {
                match &v[j] {
                    TlsMessage::Handshake(HS::KeyUpdate(id)) => vassert!(*id == types[j], "C03.handshake.messages_in_wire_order"),
                    TlsMessage::Handshake(HS::EndOfEarlyData) => vassert!(types[j] == 0x05, "C03.handshake.messages_in_wire_order"),
                    _ => vassert!(false, "C03.handshake.message_kind"),
                }
                j += 1;
            }
            vassert!(is_sub(p, rem, pos, n - pos), "C03.handshake.two_step_remainder_is_undecoded_tail");
            vcover!(k == 2 && pos == n, "C03.handshake.cover.two_messages_exact");
            vcover!(k == 1 && pos < n, "C03.handshake.cover.second_message_malformed_or_cut_short");
        }
    }
}

/// Two-step heartbeat with a header length that is *not* tied to the payload length (the two-step API lets
/// the caller pass any header): only lengths below 3 are refused on account of the header.
#[kani::proof]
#[kani::unwind(6)]
fn c03_two_heartbeat_free_header_len() {
    let buf: [u8; 7] = kani::any();
    let n: usize = kani::any();
    kani::assume(n <= 7);
    let p = &buf[..n];
    let hl: u16 = kani::any();
    let h = TlsRecordHeader { record_type: TlsRecordType(0x18), version: TlsVersion(kani::any()), len: hl };
    let r: Msgs = ManuallyDrop::new(tp::parse_tls_record_with_header(p, &h));
    let wf = n >= 3 && (be16(p, 1) as usize) <= n - 3;
    if wf && hl >= 3 {
        vassert!(r.is_ok(), "C03.heartbeat.wellformed.accepted");
        vcover!(hl as usize != n, "C03.heartbeat.cover.header_len_differs_from_payload_len");
    }
    if !wf {
        vassert!(r.is_err(), "C03.heartbeat.cut_short.rejected");
    }
}
