//! C11 — unknown enumerated code points are accepted and preserved, not rejected.
//! One field symbolic over its whole 8/16-bit domain inside an otherwise concrete, well-formed structure.
use crate::oracle::*;
use crate::util::*;
use crate::{vassert, vcover};
use alloc::vec::Vec;
use core::mem::ManuallyDrop;
use tls_parser as tp;
use tp::nom::{Err, IResult};
use tp::{TlsExtension, TlsMessage, TlsMessageHandshake};

fn u16sym() -> (u16, u8, u8) {
    let v: u16 = kani::any();
    (v, (v >> 8) as u8, v as u8)
}

macro_rules! h {
    ($name:ident, $unw:expr, $body:block) => {
        #[kani::proof]
        #[kani::unwind($unw)]
        fn $name() $body
    };
}

// record version + content type of raw / encrypted records
h!(c11_raw_record_type_and_version, 4, {
    let t: u8 = kani::any();
    let (v, vh, vl) = u16sym();
    let b = [t, vh, vl, 0, 2, 0xaa, 0xbb, 0xcc];
    let r = tp::parse_tls_raw_record(&b);
    vassert!(r.is_ok(), "C11.raw_record.any_type_and_version_accepted");
    if let Ok((rem, rec)) = &r {
        vassert!(rec.hdr.record_type.0 == t, "C11.raw_record.content_type_preserved");
        vassert!(rec.hdr.version.0 == v, "C11.raw_record.version_preserved");
        vassert!(rec.data.len() == 2 && rem.len() == 1, "C11.raw_record.other_fields_unchanged");
    }
    let r = tp::parse_tls_encrypted(&b);
    vassert!(r.is_ok(), "C11.encrypted_record.any_type_and_version_accepted");
    if let Ok((_, rec)) = &r {
        vassert!(rec.hdr.record_type.0 == t && rec.hdr.version.0 == v, "C11.encrypted_record.type_and_version_preserved");
    }
    vcover!(t == 0x99 && v == 0x1234, "C11.cover.unregistered_type_and_version");
});

// record version of a plaintext record; alert level and description
h!(c11_plaintext_version_alert_fields, 6, {
    let (v, vh, vl) = u16sym();
    let lvl: u8 = kani::any();
    let desc: u8 = kani::any();
    let b = [0x15, vh, vl, 0, 2, lvl, desc];
    let r = ManuallyDrop::new(tp::parse_tls_plaintext(&b));
    vassert!(r.is_ok(), "C11.alert.any_level_description_and_record_version_accepted");
    if let Ok((rem, p)) = &*r {
        vassert!(p.hdr.version.0 == v, "C11.plaintext.record_version_preserved");
        vassert!(p.msg.len() == 1 && rem.len() == 0, "C11.alert.other_fields_unchanged");
        if p.msg.len() == 1 {
            match &p.msg[0] {
                TlsMessage::Alert(a) => {
                    vassert!(a.severity.0 == lvl, "C11.alert.level_preserved");
                    vassert!(a.code.0 == desc, "C11.alert.description_preserved");
                }
                _ => vassert!(false, "C11.alert.kind"),
            }
        }
    }
    vcover!(lvl == 0x77 && desc == 0xfe, "C11.cover.unregistered_alert_codes");
});

// DTLS record version + alert codes
h!(c11_dtls_record_version, 10, {
    let (v, vh, vl) = u16sym();
    let t: u8 = kani::any();
    let b = [t, vh, vl, 0, 1, 0, 0, 0, 0, 0, 2, 0, 0];
    let r = tp::parse_dtls_record_header(&b);
    vassert!(r.is_ok(), "C11.dtls_header.any_type_and_version_accepted");
    if let Ok((_, hd)) = &r {
        vassert!(hd.version.0 == v && hd.content_type.0 == t, "C11.dtls_header.type_and_version_preserved");
        vassert!(hd.epoch == 1 && hd.sequence_number == 2 && hd.length == 0, "C11.dtls_header.other_fields_unchanged");
    }
});

// heartbeat type
h!(c11_heartbeat_type, 5, {
    let t: u8 = kani::any();
    let p = [t, 0, 1, 0x41, 0, 0];
    let hdr = tp::TlsRecordHeader { record_type: tp::TlsRecordType::Heartbeat, version: tp::TlsVersion::Tls12, len: 6 };
    let r = ManuallyDrop::new(tp::parse_tls_record_with_header(&p, &hdr));
    vassert!(r.is_ok(), "C11.heartbeat.any_type_accepted");
    if let Ok((_, v)) = &*r {
        match &v[0] {
            TlsMessage::Heartbeat(hb) => {
                vassert!(hb.heartbeat_type.0 == t, "C11.heartbeat.type_preserved");
                vassert!(hb.payload_len == 1 && hb.payload.len() == 1 && hb.payload[0] == 0x41, "C11.heartbeat.other_fields_unchanged");
            }
            _ => vassert!(false, "C11.heartbeat.kind"),
        }
    }
});

const RND: [u8; 32] = [7; 32];

/// ClientHello body with symbolic version, two cipher ids (both symbolic) and two compression ids (symbolic).
h!(c11_client_hello_version_ciphers_compressions, 6, {
    let (v, vh, vl) = u16sym();
    let (c1, c1h, c1l) = u16sym();
    let (c2, c2h, c2l) = u16sym();
    let m1: u8 = kani::any();
    let m2: u8 = kani::any();
    let mut b = [0u8; 2 + 32 + 1 + 2 + 4 + 1 + 2];
    b[0] = vh;
    b[1] = vl;
    b[2..34].copy_from_slice(&RND);
    b[34] = 0;
    b[35] = 0;
    b[36] = 4;
    b[37] = c1h;
    b[38] = c1l;
    b[39] = c2h;
    b[40] = c2l;
    b[41] = 2;
    b[42] = m1;
    b[43] = m2;
    let r = ManuallyDrop::new(tp::parse_tls_handshake_client_hello(&b));
    vassert!(r.is_ok(), "C11.client_hello.any_version_cipher_and_compression_ids_accepted");
    if let Ok((rem, ch)) = &*r {
        vassert!(ch.version.0 == v, "C11.client_hello.version_preserved");
        vassert!(ch.ciphers.len() == 2 && ch.ciphers[0].0 == c1 && ch.ciphers[1].0 == c2, "C11.client_hello.cipher_ids_preserved_in_order");
        vassert!(ch.comp.len() == 2 && ch.comp[0].0 == m1 && ch.comp[1].0 == m2, "C11.client_hello.compression_ids_preserved_in_order");
        vassert!(ch.session_id.is_none() && ch.ext.is_none() && rem.len() == 0 && ch.random.len() == 32, "C11.client_hello.other_fields_unchanged");
    }
    vcover!(v == 0x0909 && c1 == 0xeeee && m1 == 0x55, "C11.cover.unregistered_hello_codes");
});

/// ServerHello (TLS 1.2 form, version concrete because it selects the structure): cipher and compression symbolic.
h!(c11_server_hello_cipher_compression, 6, {
    let (c, ch_, cl) = u16sym();
    let m: u8 = kani::any();
    let mut b = [0u8; 2 + 32 + 1 + 2 + 1];
    b[0] = 3;
    b[1] = 3;
    b[2..34].copy_from_slice(&RND);
    b[34] = 0;
    b[35] = ch_;
    b[36] = cl;
    b[37] = m;
    let r = tp::parse_tls_handshake_server_hello(&b);
    vassert!(r.is_ok(), "C11.server_hello.any_cipher_and_compression_accepted");
    if let Ok((rem, sh)) = &r {
        vassert!(sh.cipher.0 == c, "C11.server_hello.cipher_preserved");
        vassert!(sh.compression.0 == m, "C11.server_hello.compression_preserved");
        vassert!(sh.version.0 == 0x0303 && sh.session_id.is_none() && sh.ext.is_none() && rem.len() == 0, "C11.server_hello.other_fields_unchanged");
    }
});

/// HelloRetryRequest: version and cipher are plain code points.
h!(c11_hello_retry_request_version_cipher, 6, {
    let (v, vh, vl) = u16sym();
    let (c, ch_, cl) = u16sym();
    let b = [vh, vl, ch_, cl];
    let r = tp::parse_tls_handshake_msg_hello_retry_request(&b);
    vassert!(r.is_ok(), "C11.hrr.any_version_and_cipher_accepted");
    if let Ok((_, TlsMessageHandshake::HelloRetryRequest(h))) = &r {
        vassert!(h.version.0 == v && h.cipher.0 == c && h.ext.is_none(), "C11.hrr.version_and_cipher_preserved");
    } else {
        vassert!(false, "C11.hrr.kind");
    }
});

/// Extension type through the non-dispatching parser.
h!(c11_extension_type_unknown_parser, 6, {
    let (t, th, tl) = u16sym();
    let b = [th, tl, 0, 2, 0xde, 0xad, 0x99];
    let r = tp::parse_tls_extension_unknown(&b);
    vassert!(r.is_ok(), "C11.extension.any_type_accepted");
    if let Ok((rem, TlsExtension::Unknown(ty, d))) = &r {
        vassert!(ty.0 == t, "C11.extension.type_preserved");
        vassert!(d.len() == 2 && d[0] == 0xde && d[1] == 0xad && rem.len() == 1, "C11.extension.other_fields_unchanged");
    } else {
        vassert!(false, "C11.extension.kind");
    }
});

/// supported_groups: two named groups, both symbolic.
h!(c11_supported_groups, 6, {
    let (g1, g1h, g1l) = u16sym();
    let (g2, g2h, g2l) = u16sym();
    let b = [0x00, 0x0a, 0, 6, 0, 4, g1h, g1l, g2h, g2l];
    let r = ManuallyDrop::new(tp::parse_tls_extension(&b));
    vassert!(r.is_ok(), "C11.supported_groups.any_group_accepted");
    if let Ok((rem, TlsExtension::EllipticCurves(v))) = &*r {
        vassert!(v.len() == 2 && v[0].0 == g1 && v[1].0 == g2 && rem.len() == 0, "C11.supported_groups.groups_preserved_in_order");
    } else {
        vassert!(false, "C11.supported_groups.kind");
    }
    vcover!(g1 == 0x7777, "C11.cover.unregistered_group");
});

/// ECParameters named curve and ESNI group.
h!(c11_ec_named_curve_and_esni_group, 6, {
    let (g, gh, gl) = u16sym();
    let b = [3, gh, gl];
    let r = tp::parse_ec_parameters(&b);
    vassert!(r.is_ok(), "C11.ec_parameters.any_named_group_accepted");
    if let Ok((_, p)) = &r {
        match &p.params_content {
            tp::ECParametersContent::NamedGroup(n) => vassert!(n.0 == g, "C11.ec_parameters.named_group_preserved"),
            _ => vassert!(false, "C11.ec_parameters.kind"),
        }
    }
    let (c, ch_, cl) = u16sym();
    let e = [0xff, 0xce, 0, 10, ch_, cl, gh, gl, 0, 0, 0, 0, 0, 0];
    let r = ManuallyDrop::new(tp::parse_tls_extension(&e));
    vassert!(r.is_ok(), "C11.esni.any_group_and_cipher_accepted");
    if let Ok((_, TlsExtension::EncryptedServerName { ciphersuite, group, .. })) = &*r {
        vassert!(group.0 == g && ciphersuite.0 == c, "C11.esni.group_and_cipher_preserved");
    } else {
        vassert!(false, "C11.esni.kind");
    }
});

/// signature_algorithms: two schemes symbolic.
h!(c11_signature_algorithms, 6, {
    let (s1, s1h, s1l) = u16sym();
    let (s2, s2h, s2l) = u16sym();
    let b = [0x00, 0x0d, 0, 6, 0, 4, s1h, s1l, s2h, s2l];
    let r = ManuallyDrop::new(tp::parse_tls_extension(&b));
    vassert!(r.is_ok(), "C11.signature_algorithms.any_scheme_accepted");
    if let Ok((_, TlsExtension::SignatureAlgorithms(v))) = &*r {
        vassert!(v.len() == 2 && v[0] == s1 && v[1] == s2, "C11.signature_algorithms.schemes_preserved_in_order");
    } else {
        vassert!(false, "C11.signature_algorithms.kind");
    }
});

/// DigitallySigned hash / signature algorithm.
h!(c11_digitally_signed_algorithms, 6, {
    let hsh: u8 = kani::any();
    let sg: u8 = kani::any();
    let b = [hsh, sg, 0, 1, 0x5a];
    let r = tp::parse_digitally_signed(&b);
    vassert!(r.is_ok(), "C11.digitally_signed.any_algorithm_pair_accepted");
    if let Ok((_, d)) = &r {
        match &d.alg {
            Some(a) => vassert!(a.hash.0 == hsh && a.sign.0 == sg, "C11.digitally_signed.algorithms_preserved"),
            None => vassert!(false, "C11.digitally_signed.alg_present"),
        }
        vassert!(d.data.len() == 1 && d.data[0] == 0x5a, "C11.digitally_signed.other_fields_unchanged");
    }
});

/// SNI name type (two names, both types symbolic).
h!(c11_sni_name_type, 7, {
    let t1: u8 = kani::any();
    let t2: u8 = kani::any();
    let b = [0, 0, 0, 10, 0, 8, t1, 0, 1, b'a', t2, 0, 1, b'b'];
    let r = ManuallyDrop::new(tp::parse_tls_extension(&b));
    vassert!(r.is_ok(), "C11.sni.any_name_type_accepted");
    if let Ok((_, TlsExtension::SNI(v))) = &*r {
        vassert!(v.len() == 2 && (v[0].0).0 == t1 && (v[1].0).0 == t2, "C11.sni.name_types_preserved_in_order");
        vassert!(v[0].1.len() == 1 && v[0].1[0] == b'a' && v[1].1[0] == b'b', "C11.sni.other_fields_unchanged");
    } else {
        vassert!(false, "C11.sni.kind");
    }
});

/// certificate-status type in the status_request extension and in the CertificateStatus message.
h!(c11_certificate_status_type, 6, {
    let t: u8 = kani::any();
    let b = [0, 5, 0, 3, t, 0xa, 0xb];
    let r = ManuallyDrop::new(tp::parse_tls_extension(&b));
    vassert!(r.is_ok(), "C11.status_request.any_status_type_accepted");
    if let Ok((_, TlsExtension::StatusRequest(Some((ty, d))))) = &*r {
        vassert!(ty.0 == t && d.len() == 2, "C11.status_request.status_type_preserved");
    } else {
        vassert!(false, "C11.status_request.kind");
    }
    let m = [t, 0, 0, 2, 1, 2];
    let r = tp::parse_tls_handshake_certificatestatus(&m);
    vassert!(r.is_ok(), "C11.certificate_status.any_status_type_accepted");
    if let Ok((_, c)) = &r {
        vassert!(c.status_type == t && c.blob.len() == 2, "C11.certificate_status.status_type_preserved");
    }
});

/// certificate types in CertificateRequest (TLS 1.2 form), plus the signature algorithms carried there.
h!(c11_certificate_request_types, 7, {
    let t1: u8 = kani::any();
    let t2: u8 = kani::any();
    let (s, sh, sl) = u16sym();
    let b = [2, t1, t2, 0, 2, sh, sl, 0, 0];
    let r = ManuallyDrop::new(tp::parse_tls_handshake_certificaterequest(&b));
    vassert!(r.is_ok(), "C11.certificate_request.any_certificate_type_accepted");
    if let Ok((_, c)) = &*r {
        vassert!(c.cert_types.len() == 2 && c.cert_types[0] == t1 && c.cert_types[1] == t2, "C11.certificate_request.types_preserved_in_order");
        match &c.sig_hash_algs {
            Some(v) => vassert!(v.len() == 1 && v[0] == s, "C11.certificate_request.signature_algorithm_preserved"),
            None => vassert!(false, "C11.certificate_request.tls12_form"),
        }
    }
});

/// PSK exchange modes and EC point formats.
h!(c11_psk_modes_and_point_formats, 6, {
    let m1: u8 = kani::any();
    let m2: u8 = kani::any();
    let b = [0, 0x2d, 0, 3, 2, m1, m2];
    let r = ManuallyDrop::new(tp::parse_tls_extension(&b));
    vassert!(r.is_ok(), "C11.psk_modes.any_mode_accepted");
    if let Ok((_, TlsExtension::PskExchangeModes(v))) = &*r {
        vassert!(v.len() == 2 && v[0] == m1 && v[1] == m2, "C11.psk_modes.modes_preserved_in_order");
    } else {
        vassert!(false, "C11.psk_modes.kind");
    }
    let p = [0, 0x0b, 0, 3, 2, m1, m2];
    let r = ManuallyDrop::new(tp::parse_tls_extension(&p));
    vassert!(r.is_ok(), "C11.ec_point_formats.any_format_accepted");
    if let Ok((_, TlsExtension::EcPointFormats(v))) = &*r {
        vassert!(v.len() == 2 && v[0] == m1 && v[1] == m2, "C11.ec_point_formats.formats_preserved_in_order");
    } else {
        vassert!(false, "C11.ec_point_formats.kind");
    }
});

/// CT version and key-update value.
h!(c11_ct_version_and_key_update, 10, {
    let v: u8 = kani::any();
    let mut b = [0u8; 2 + 1 + 32 + 8 + 2 + 2 + 2];
    b[1] = 47;
    b[2] = v;
    let r = tp::parse_ct_signed_certificate_timestamp(&b);
    vassert!(r.is_ok(), "C11.sct.any_version_accepted");
    if let Ok((_, s)) = &r {
        vassert!(s.version.0 == v, "C11.sct.version_preserved");
        vassert!(s.timestamp == 0 && s.extensions.0.len() == 0 && s.signature.data.len() == 0, "C11.sct.other_fields_unchanged");
    }
    let k = [v];
    let r = tp::parse_tls_handshake_msg_key_update(&k);
    vassert!(r.is_ok(), "C11.key_update.any_value_accepted");
    if let Ok((_, TlsMessageHandshake::KeyUpdate(x))) = &r {
        vassert!(*x == v, "C11.key_update.value_preserved");
    } else {
        vassert!(false, "C11.key_update.kind");
    }
});
