//! C06 — parsers are local and zero-copy: only the declared bytes matter.
//!
//! One-byte-extension induction: r1 = parse(b[..L]), r2 = parse(b[..L+1]) on the same symbolic buffer.
//!  * r1 = Ok  =>  r2 = Ok with the same value (slices pointer-identical) and remainder = rem1 ++ 1 byte
//!  * r1 = Error/Failure  =>  r2 has the same class (appending bytes never turns an error into a value)
//! Induction over the suffix length gives every suffix inside the buffer bound. Pointer provenance
//! (every returned slice = input[off..off+len] inside the consumed prefix) is asserted by the
//! differential harnesses of C02/C04/C05/C10/C13/C14, which are part of this property's check.
use crate::oracle::*;
use crate::util::*;
use crate::{vassert, vcover};
use alloc::vec::Vec;
use core::mem::ManuallyDrop;
use tls_parser as tp;
use tp::nom::{Err, IResult};

fn ps(a: &[u8], b: &[u8]) -> bool {
    a.as_ptr() == b.as_ptr() && a.len() == b.len()
}
fn pso(a: Option<&[u8]>, b: Option<&[u8]>) -> bool {
    match (a, b) {
        (Some(x), Some(y)) => ps(x, y),
        (None, None) => true,
        _ => false,
    }
}

/// Generic induction step. `$eq` compares two values of the parser's output type.
macro_rules! extend_one {
    ($name:ident, $f:path, $n:expr, $unw:expr, $lbl:literal, |$a:ident, $b:ident| $eq:expr) => {
        #[kani::proof]
        #[kani::unwind($unw)]
        fn $name() {
            let buf: [u8; $n] = kani::any();
            let l: usize = kani::any();
            kani::assume(l < $n);
            let r1 = ManuallyDrop::new($f(&buf[..l]));
            let r2 = ManuallyDrop::new($f(&buf[..l + 1]));
            match (&*r1, &*r2) {
                (Ok((rem1, $a)), Ok((rem2, $b))) => {
                    vassert!($eq, $lbl, ".appending_a_byte_leaves_the_value_unchanged");
                    vassert!(rem2.as_ptr() == rem1.as_ptr() && rem2.len() == rem1.len() + 1, $lbl, ".appending_a_byte_only_extends_the_remainder");
                    vassert!(inside(&buf[..], rem1, l) && off(&buf[..], rem1) + rem1.len() == l, $lbl, ".remainder_is_a_suffix_of_the_input");
                    vcover!(rem1.len() > 0, "C06.cover.ok_with_remainder");
                    vcover!(rem1.len() == 0, "C06.cover.ok_exact");
                }
                (Ok(_), Err(_)) => vassert!(false, $lbl, ".success_survives_appended_bytes"),
                (Err(Err::Error(_)), r) | (Err(Err::Failure(_)), r) => {
                    vassert!(r.is_err() && class(&*r2) == class(&*r1), $lbl, ".an_error_never_becomes_a_value_by_appending_bytes");
                    vcover!(true, "C06.cover.error_stays_error");
                }
                (Err(Err::Incomplete(_)), _) => {
                    vcover!(r2.is_ok(), "C06.cover.incomplete_then_ok");
                    vcover!(r2.is_err(), "C06.cover.incomplete_stays_err");
                }
            }
        }
    };
}

extend_one!(c06_raw_record, tp::parse_tls_raw_record, 10, 4, "C06.raw_record",
            |a, b| a.hdr == b.hdr && ps(a.data, b.data));
extend_one!(c06_encrypted_record, tp::parse_tls_encrypted, 10, 4, "C06.encrypted_record",
            |a, b| a.hdr == b.hdr && ps(a.msg.blob, b.msg.blob));
extend_one!(c06_dtls_record_header, tp::parse_dtls_record_header, 15, 10, "C06.dtls_record_header",
            |a, b| a == b);
extend_one!(c06_dh_params, tp::parse_dh_params, 10, 4, "C06.dh_params",
            |a, b| ps(a.dh_p, b.dh_p) && ps(a.dh_g, b.dh_g) && ps(a.dh_ys, b.dh_ys));
extend_one!(c06_digitally_signed, tp::parse_digitally_signed, 8, 4, "C06.digitally_signed",
            |a, b| a.alg == b.alg && ps(a.data, b.data));
extend_one!(c06_digitally_signed_old, tp::parse_digitally_signed_old, 6, 4, "C06.digitally_signed_old",
            |a, b| a.alg == b.alg && ps(a.data, b.data));

fn ec_eq(a: &tp::ECParameters, b: &tp::ECParameters) -> bool {
    if a.curve_type.0 != b.curve_type.0 {
        return false;
    }
    match (&a.params_content, &b.params_content) {
        (tp::ECParametersContent::NamedGroup(x), tp::ECParametersContent::NamedGroup(y)) => x.0 == y.0,
        (tp::ECParametersContent::ExplicitPrime(x), tp::ECParametersContent::ExplicitPrime(y)) => {
            ps(x.prime_p, y.prime_p) && ps(x.curve.a, y.curve.a) && ps(x.curve.b, y.curve.b) && ps(x.base.point, y.base.point)
                && ps(x.order, y.order) && ps(x.cofactor, y.cofactor)
        }
        _ => false,
    }
}
extend_one!(c06_ec_parameters, tp::parse_ec_parameters, 10, 4, "C06.ec_parameters", |a, b| ec_eq(a, b));
extend_one!(c06_ecdh_params, tp::parse_ecdh_params, 9, 4, "C06.ecdh_params",
            |a, b| ec_eq(&a.curve_params, &b.curve_params) && ps(a.public.point, b.public.point));

fn sct_eq(a: &tp::SignedCertificateTimestamp, b: &tp::SignedCertificateTimestamp) -> bool {
    a.version.0 == b.version.0 && core::ptr::eq(a.id.key_id, b.id.key_id) && a.timestamp == b.timestamp
        && ps(a.extensions.0, b.extensions.0) && a.signature.alg == b.signature.alg && ps(a.signature.data, b.signature.data)
}
extend_one!(c06_sct, tp::parse_ct_signed_certificate_timestamp, 51, 10, "C06.sct", |a, b| sct_eq(a, b));

// ---- dispatching parsers: dispatch byte(s) and the two lengths concrete (rule R2), contents symbolic.
macro_rules! extend_one_fixed {
    ($name:ident, $f:path, $l:expr, $unw:expr, $lbl:literal, [$($idx:expr => $val:expr),*], |$a:ident, $b:ident| $eq:expr) => {
        #[kani::proof]
        #[kani::unwind($unw)]
        fn $name() {
            const L: usize = $l;
            let mut buf: [u8; L + 1] = kani::any();
            $(buf[$idx] = $val;)*
            let r1 = ManuallyDrop::new($f(&buf[..L]));
            let r2 = ManuallyDrop::new($f(&buf[..L + 1]));
            match (&*r1, &*r2) {
                (Ok((rem1, $a)), Ok((rem2, $b))) => {
                    vassert!($eq, $lbl, ".appending_a_byte_leaves_the_value_unchanged");
                    vassert!(rem2.as_ptr() == rem1.as_ptr() && rem2.len() == rem1.len() + 1, $lbl, ".appending_a_byte_only_extends_the_remainder");
                    vcover!(true, "C06.cover.ok_fixed_shape");
                }
                (Ok(_), Err(_)) => vassert!(false, $lbl, ".success_survives_appended_bytes"),
                (Err(_), r) => {
                    // the declared length is contained in both inputs: the outcome class must not change
                    vassert!(r.is_err(), $lbl, ".outcome_class_fixed_once_declared_length_is_present");
                    vcover!(true, "C06.cover.error_stays_error");
                }
            }
        }
    };
}

fn hs_eq(a: &tp::TlsMessage, b: &tp::TlsMessage) -> bool {
    use tp::TlsMessageHandshake as HS;
    match (a, b) {
        (tp::TlsMessage::Handshake(x), tp::TlsMessage::Handshake(y)) => match (x, y) {
            (HS::Finished(p), HS::Finished(q)) => ps(p, q),
            (HS::NewSessionTicket(p), HS::NewSessionTicket(q)) => p.ticket_lifetime_hint == q.ticket_lifetime_hint && ps(p.ticket, q.ticket),
            (HS::CertificateStatus(p), HS::CertificateStatus(q)) => p.status_type == q.status_type && ps(p.blob, q.blob),
            (HS::NextProtocol(p), HS::NextProtocol(q)) => ps(p.selected_protocol, q.selected_protocol) && ps(p.padding, q.padding),
            (HS::ServerHello(p), HS::ServerHello(q)) => {
                p.version == q.version && ps(p.random, q.random) && pso(p.session_id, q.session_id) && p.cipher.0 == q.cipher.0
                    && p.compression.0 == q.compression.0 && pso(p.ext, q.ext)
            }
            _ => false,
        },
        _ => false,
    }
}
// handshake messages: [type, 0, 0, hl, body(hl bytes)] + appended byte; nested length fields symbolic
extend_one_fixed!(c06_msg_finished, tp::parse_tls_message_handshake, 7, 6, "C06.msg.finished", [0 => 0x14, 1 => 0, 2 => 0, 3 => 3], |a, b| hs_eq(a, b));
extend_one_fixed!(c06_msg_new_session_ticket, tp::parse_tls_message_handshake, 10, 6, "C06.msg.new_session_ticket", [0 => 0x04, 1 => 0, 2 => 0, 3 => 6], |a, b| hs_eq(a, b));
extend_one_fixed!(c06_msg_certificate_status, tp::parse_tls_message_handshake, 9, 6, "C06.msg.certificate_status", [0 => 0x16, 1 => 0, 2 => 0, 3 => 5], |a, b| hs_eq(a, b));
extend_one_fixed!(c06_msg_next_protocol, tp::parse_tls_message_handshake, 8, 6, "C06.msg.next_protocol", [0 => 0x43, 1 => 0, 2 => 0, 3 => 4], |a, b| hs_eq(a, b));
extend_one_fixed!(c06_msg_server_hello, tp::parse_tls_message_handshake, 46, 6, "C06.msg.server_hello", [0 => 0x02, 1 => 0, 2 => 0, 3 => 42, 4 => 3, 5 => 3], |a, b| hs_eq(a, b));

fn ext_eq(a: &tp::TlsExtension, b: &tp::TlsExtension) -> bool {
    use tp::TlsExtension as X;
    match (a, b) {
        (X::SNI(x), X::SNI(y)) => x.len() == y.len() && (x.len() < 1 || ((x[0].0).0 == (y[0].0).0 && ps(x[0].1, y[0].1))),
        (X::StatusRequest(Some((t, d))), X::StatusRequest(Some((u, e)))) => t.0 == u.0 && ps(d, e),
        (X::EcPointFormats(x), X::EcPointFormats(y)) => ps(x, y),
        (X::RenegotiationInfo(x), X::RenegotiationInfo(y)) => ps(x, y),
        (X::KeyShare(x), X::KeyShare(y)) => ps(x, y),
        (X::Unknown(t, x), X::Unknown(u, y)) => t.0 == u.0 && ps(x, y),
        (X::EncryptedServerName { ciphersuite: c1, group: g1, key_share: k1, record_digest: d1, encrypted_sni: s1 },
         X::EncryptedServerName { ciphersuite: c2, group: g2, key_share: k2, record_digest: d2, encrypted_sni: s2 }) => {
            c1.0 == c2.0 && g1.0 == g2.0 && ps(k1, k2) && ps(d1, d2) && ps(s1, s2)
        }
        _ => false,
    }
}
// extensions: [type(2), 0, len, data(len)] + appended byte
extend_one_fixed!(c06_ext_sni, tp::parse_tls_extension, 12, 7, "C06.ext.sni", [0 => 0, 1 => 0, 2 => 0, 3 => 8], |a, b| ext_eq(a, b));
extend_one_fixed!(c06_ext_point_formats, tp::parse_tls_extension, 7, 6, "C06.ext.point_formats", [0 => 0, 1 => 11, 2 => 0, 3 => 3], |a, b| ext_eq(a, b));
extend_one_fixed!(c06_ext_renegotiation_info, tp::parse_tls_extension, 7, 6, "C06.ext.renegotiation_info", [0 => 0xff, 1 => 0x01, 2 => 0, 3 => 3], |a, b| ext_eq(a, b));
extend_one_fixed!(c06_ext_esni, tp::parse_tls_extension, 16, 6, "C06.ext.esni", [0 => 0xff, 1 => 0xce, 2 => 0, 3 => 12], |a, b| ext_eq(a, b));
extend_one_fixed!(c06_ext_unknown, tp::parse_tls_extension, 7, 6, "C06.ext.unknown", [0 => 0x12, 1 => 0x34, 2 => 0, 3 => 3], |a, b| ext_eq(a, b));

// DTLS handshake message (ServerDone) and a whole DTLS fragment
fn dtls_eq(a: &tp::DTLSMessage, b: &tp::DTLSMessage) -> bool {
    match (a, b) {
        (tp::DTLSMessage::Handshake(x), tp::DTLSMessage::Handshake(y)) => {
            x.msg_type == y.msg_type && x.length == y.length && x.message_seq == y.message_seq && x.fragment_offset == y.fragment_offset
                && x.fragment_length == y.fragment_length
                && match (&x.body, &y.body) {
                    (tp::DTLSMessageHandshakeBody::ServerDone(p), tp::DTLSMessageHandshakeBody::ServerDone(q)) => ps(p, q),
                    (tp::DTLSMessageHandshakeBody::Fragment(p), tp::DTLSMessageHandshakeBody::Fragment(q)) => ps(p, q),
                    (tp::DTLSMessageHandshakeBody::HelloVerifyRequest(p), tp::DTLSMessageHandshakeBody::HelloVerifyRequest(q)) => {
                        p.server_version == q.server_version && ps(p.cookie, q.cookie)
                    }
                    _ => false,
                }
        }
        _ => false,
    }
}
extend_one_fixed!(c06_dtls_msg_serverdone, tp::parse_dtls_message_handshake, 14, 6, "C06.dtls_msg.serverdone", [0 => 14, 9 => 0, 10 => 0, 11 => 2], |a, b| dtls_eq(a, b));
extend_one_fixed!(c06_dtls_msg_hello_verify_request, tp::parse_dtls_message_handshake, 17, 6, "C06.dtls_msg.hello_verify_request", [0 => 3, 9 => 0, 10 => 0, 11 => 5], |a, b| dtls_eq(a, b));

// single-purpose extension parsers: declared length smaller than what the content decoder would like to read
fn ext_any_eq(a: &tp::TlsExtension, b: &tp::TlsExtension) -> bool {
    use tp::TlsExtension as X;
    match (a, b) {
        (X::EarlyData(x), X::EarlyData(y)) => x == y,
        (X::StatusRequest(x), X::StatusRequest(y)) => match (x, y) {
            (Some((t, d)), Some((u, e))) => t.0 == u.0 && ps(d, e),
            (None, None) => true,
            _ => false,
        },
        (X::SessionTicket(x), X::SessionTicket(y)) => ps(x, y),
        (X::Cookie(x), X::Cookie(y)) => ps(x, y),
        (X::KeyShare(x), X::KeyShare(y)) => ps(x, y),
        (X::PreSharedKey(x), X::PreSharedKey(y)) => ps(x, y),
        (X::SupportedVersions(x), X::SupportedVersions(y)) => x.len() == y.len(),
        (X::MaxFragmentLength(x), X::MaxFragmentLength(y)) => x == y,
        (X::Heartbeat(x), X::Heartbeat(y)) => x == y,
        _ => false,
    }
}
extend_one_fixed!(c06_tag_early_data_len2, tp::parse_tls_extension_early_data, 7, 6, "C06.tag.early_data", [0 => 0, 1 => 0x2a, 2 => 0, 3 => 2], |a, b| ext_any_eq(a, b));
extend_one_fixed!(c06_tag_early_data_len0, tp::parse_tls_extension_early_data, 7, 6, "C06.tag.early_data0", [0 => 0, 1 => 0x2a, 2 => 0, 3 => 0], |a, b| ext_any_eq(a, b));
extend_one_fixed!(c06_tag_status_request_len0, tp::parse_tls_extension_status_request, 5, 6, "C06.tag.status_request", [0 => 0, 1 => 5, 2 => 0, 3 => 0], |a, b| ext_any_eq(a, b));
extend_one_fixed!(c06_tag_max_fragment_length_len0, tp::parse_tls_extension_max_fragment_length, 4, 6, "C06.tag.max_fragment_length", [0 => 0, 1 => 1, 2 => 0, 3 => 0], |a, b| ext_any_eq(a, b));
extend_one_fixed!(c06_tag_supported_versions_len1, tp::parse_tls_extension_supported_versions, 6, 6, "C06.tag.supported_versions", [0 => 0, 1 => 0x2b, 2 => 0, 3 => 1], |a, b| ext_any_eq(a, b));
extend_one_fixed!(c06_tag_cookie_len2, tp::parse_tls_extension_cookie, 6, 6, "C06.tag.cookie", [0 => 0, 1 => 0x2c, 2 => 0, 3 => 2], |a, b| ext_any_eq(a, b));
