//! C09 — serializer output parses back to the same value with consistent lengths (feature `serialize`).
use crate::oracle::*;
use crate::util::*;
use crate::{vassert, vcover};
use alloc::vec::Vec;
use cookie_factory::gen_simple;
use core::mem::ManuallyDrop;
use tls_parser as tp;
use tp::{GenError, Serialize, TlsExtension as X, TlsMessage, TlsMessageHandshake as HS};

/// Content equality without a loop: lengths equal and the bytes agree at an arbitrary (symbolic) index,
/// which the solver checks for every index at once.
fn bytes_eq(a: &[u8], b: &[u8]) -> bool {
    if a.len() != b.len() {
        return false;
    }
    if a.len() == 0 {
        return true;
    }
    let k: usize = kani::any();
    kani::assume(k < a.len());
    a[k] == b[k]
}
fn opt_eq(a: Option<&[u8]>, b: Option<&[u8]>) -> bool {
    match (a, b) {
        (Some(x), Some(y)) => bytes_eq(x, y),
        (None, None) => true,
        _ => false,
    }
}

/// Serialize, never dropping the result (io::Error drop glue is kept out of the formula).
fn ser<T: Serialize<Vec<u8>, Error = GenError>>(v: &T) -> ManuallyDrop<Result<Vec<u8>, GenError>> {
    ManuallyDrop::new(v.serialize())
}

/// Copy the serializer output into a local array and re-impose the header bytes that were just
/// asserted, as constants: bytes that went through the heap are no longer constants for CBMC, and a
/// symbolic dispatch byte would make the parser's `match` execute every arm (rule R1).
macro_rules! stage {
    ($b:expr, $n:expr, [$($i:expr => $v:expr),*]) => {{
        let mut a = [0u8; $n];
        if $b.len() == $n {
            a.copy_from_slice($b);
        }
        $(a[$i] = $v;)*
        a
    }};
}

macro_rules! ok_bytes {
    ($r:expr, $lbl:literal) => {
        match &*$r {
            Ok(b) => &b[..],
            Err(_) => {
                vassert!(false, $lbl, ".serialization_succeeds");
                return;
            }
        }
    };
}

// ------------------------------------------------------------------------------------------------ ServerHello
macro_rules! server_hello_rt {
    ($name:ident, $sid:expr, $ext:expr) => {
        #[kani::proof]
        #[kani::unwind(8)]
        fn $name() {
            let random: [u8; 32] = kani::any();
            let pool: [u8; 4] = kani::any();
            let v: u16 = kani::any();
            kani::assume(v >= 0x0300 && v <= 0x0303);
            let sid: Option<&[u8]> = if $sid > 0 { Some(&pool[..$sid]) } else { None };
            const EXT: i32 = $ext;
            let ext: Option<&[u8]> = if EXT >= 0 { Some(&pool[2..2 + (EXT as usize)]) } else { None };
            let sh = tp::TlsServerHelloContents::new(v, &random, sid, kani::any(), kani::any(), ext);
            let (cipher, comp) = (sh.cipher.0, sh.compression.0);
            let msg = HS::ServerHello(sh);
            let out = ser(&msg);
            let b = ok_bytes!(out, "C09.sh");
            let sl: usize = $sid;
            let el: usize = if EXT >= 0 { EXT as usize } else { 0 };
            // independent walk over the emitted length fields
            vassert!(b.len() == 4 + 2 + 32 + 1 + sl + 2 + 1 + 2 + el, "C09.sh.total_length");
            vassert!(b[0] == 0x02, "C09.sh.handshake_type");
            vassert!(be24(b, 1) as usize == b.len() - 4, "C09.sh.handshake_u24_length_is_body_length");
            vassert!(b[38] as usize == sl, "C09.sh.session_id_length_field");
            vassert!(be16(b, 42 + sl) as usize == el, "C09.sh.extension_length_field");
            // parse back
            const N: usize = 4 + 2 + 32 + 1 + $sid + 2 + 1 + 2 + (if EXT >= 0 { EXT as usize } else { 0 });
            let a = stage!(b, N, [0 => 0x02, 1 => 0, 2 => 0, 3 => (N - 4) as u8]);
            let b = &a[..];
            let r = ManuallyDrop::new(tp::parse_tls_message_handshake(b));
            vassert!(r.is_ok(), "C09.sh.output_parses");
            if let Ok((rem, TlsMessage::Handshake(HS::ServerHello(p)))) = &*r {
                vassert!(rem.len() == 0, "C09.sh.parse_consumes_everything");
                vassert!(p.version.0 == v && bytes_eq(p.random, &random) && opt_eq(p.session_id, sid) && p.cipher.0 == cipher && p.compression.0 == comp,
                         "C09.sh.fields_round_trip");
                if v == 0x0300 {
                    vassert!(p.ext.is_none(), "C09.sh.sslv3_extension_block_reads_back_absent");
                } else {
                    vassert!(opt_eq(p.ext, Some(ext.unwrap_or(&[]))), "C09.sh.absent_extension_block_reads_back_empty_else_same");
                }
                vcover!(v == 0x0303, "C09.sh.cover.tls12");
                vcover!(v == 0x0300, "C09.sh.cover.sslv3");
            } else {
                vassert!(false, "C09.sh.parses_back_as_server_hello");
            }
        }
    };
}
server_hello_rt!(c09_server_hello_nosid_noext, 0, -1);
server_hello_rt!(c09_server_hello_sid2_ext2, 2, 2);

// ------------------------------------------------------------------------------------------------ ClientHello
macro_rules! client_hello_rt {
    ($name:ident, $sid:expr, $nc:expr, $nm:expr, $ext:expr) => {
        #[kani::proof]
        #[kani::unwind(8)]
        fn $name() {
            let random: [u8; 32] = kani::any();
            let pool: [u8; 4] = kani::any();
            let v: u16 = kani::any();
            let sid: Option<&[u8]> = if $sid > 0 { Some(&pool[..$sid]) } else { None };
            const EXT: i32 = $ext;
            let ext: Option<&[u8]> = if EXT >= 0 { Some(&pool[2..2 + (EXT as usize)]) } else { None };
            let ids: [u16; 2] = kani::any();
            let cms: [u8; 2] = kani::any();
            let mut ciphers = Vec::with_capacity(2);
            let mut k = 0;
            while k < $nc {
                ciphers.push(tp::TlsCipherSuiteID(ids[k]));
                k += 1;
            }
            let mut comp = Vec::with_capacity(2);
            let mut k = 0;
            while k < $nm {
                comp.push(tp::TlsCompressionID(cms[k]));
                k += 1;
            }
            let ch = tp::TlsClientHelloContents::new(v, &random, sid, ciphers, comp, ext);
            let msg = ManuallyDrop::new(HS::ClientHello(ch));
            let out = ser(&*msg);
            let b = ok_bytes!(out, "C09.ch");
            let (sl, nc, nm): (usize, usize, usize) = ($sid, $nc, $nm);
            let el: usize = if EXT >= 0 { EXT as usize } else { 0 };
            vassert!(b.len() == 4 + 2 + 32 + 1 + sl + 2 + 2 * nc + 1 + nm + 2 + el, "C09.ch.total_length");
            vassert!(b[0] == 0x01, "C09.ch.handshake_type");
            vassert!(be24(b, 1) as usize == b.len() - 4, "C09.ch.handshake_u24_length_is_body_length");
            vassert!(b[38] as usize == sl, "C09.ch.session_id_length_field");
            vassert!(be16(b, 39 + sl) as usize == 2 * nc, "C09.ch.cipher_list_length_field_is_2n");
            vassert!(b[41 + sl + 2 * nc] as usize == nm, "C09.ch.compression_list_length_field");
            vassert!(be16(b, 42 + sl + 2 * nc + nm) as usize == el, "C09.ch.extension_length_field");
            const N: usize = 4 + 2 + 32 + 1 + $sid + 2 + 2 * $nc + 1 + $nm + 2 + (if EXT >= 0 { EXT as usize } else { 0 });
            let a = stage!(b, N, [0 => 0x01, 1 => 0, 2 => 0, 3 => (N - 4) as u8]);
            let b = &a[..];
            let r = ManuallyDrop::new(tp::parse_tls_message_handshake(b));
            vassert!(r.is_ok(), "C09.ch.output_parses");
            if let Ok((rem, TlsMessage::Handshake(HS::ClientHello(p)))) = &*r {
                vassert!(rem.len() == 0, "C09.ch.parse_consumes_everything");
                vassert!(p.version.0 == v && bytes_eq(p.random, &random) && opt_eq(p.session_id, sid), "C09.ch.scalar_fields_round_trip");
                vassert!(p.ciphers.len() == nc && (nc < 1 || p.ciphers[0].0 == ids[0]) && (nc < 2 || p.ciphers[1].0 == ids[1]), "C09.ch.ciphers_round_trip_in_order");
                vassert!(p.comp.len() == nm && (nm < 1 || p.comp[0].0 == cms[0]) && (nm < 2 || p.comp[1].0 == cms[1]), "C09.ch.compressions_round_trip_in_order");
                vassert!(opt_eq(p.ext, Some(ext.unwrap_or(&[]))), "C09.ch.absent_extension_block_reads_back_empty_else_same");
                vcover!(true, "C09.ch.cover.round_trip");
            } else {
                vassert!(false, "C09.ch.parses_back_as_client_hello");
            }
        }
    };
}
client_hello_rt!(c09_client_hello_min, 0, 0, 0, -1);
client_hello_rt!(c09_client_hello_sid1_c2_m1_ext2, 1, 2, 1, 2);
client_hello_rt!(c09_client_hello_c1, 0, 1, 0, -1);

// ------------------------------------------------------------------------------------------------ draft-18 ServerHello
macro_rules! draft18_rt {
    ($name:ident, $with_ext:expr) => {
#[kani::proof]
#[kani::unwind(8)]
fn $name() {
    let random: [u8; 32] = kani::any();
    let pool: [u8; 2] = kani::any();
    let with_ext: bool = $with_ext;
    let ext: Option<&[u8]> = if with_ext { Some(&pool[..]) } else { None };
    let c: u16 = kani::any();
    let sh = tp::TlsServerHelloV13Draft18Contents { version: tp::TlsVersion(0x7f12), random: &random, cipher: tp::TlsCipherSuiteID(c), ext };
    let out = ser(&HS::ServerHelloV13Draft18(sh));
    let b = ok_bytes!(out, "C09.sh18");
    let el = if with_ext { 2 } else { 0 };
    vassert!(b.len() == 4 + 2 + 32 + 2 + 2 + el && b[0] == 0x02 && be24(b, 1) as usize == b.len() - 4 && be16(b, 40) as usize == el, "C09.sh18.length_fields");
    const N: usize = 4 + 2 + 32 + 2 + 2 + (if $with_ext { 2 } else { 0 });
    vassert!(b[4] == 0x7f && b[5] == 0x12, "C09.sh18.version_bytes");
    let a = stage!(b, N, [0 => 0x02, 1 => 0, 2 => 0, 3 => (N - 4) as u8, 4 => 0x7f, 5 => 0x12]);
    let b = &a[..];
    let r = ManuallyDrop::new(tp::parse_tls_message_handshake(b));
    if let Ok((rem, TlsMessage::Handshake(HS::ServerHelloV13Draft18(p)))) = &*r {
        vassert!(rem.len() == 0 && p.version.0 == 0x7f12 && bytes_eq(p.random, &random) && p.cipher.0 == c && opt_eq(p.ext, Some(ext.unwrap_or(&[]))), "C09.sh18.fields_round_trip");
        vcover!(true, "C09.sh18.cover.round_trip");
    } else {
        vassert!(false, "C09.sh18.parses_back_as_draft18_server_hello");
    }
}
    };
}
draft18_rt!(c09_server_hello_draft18_noext, false);
draft18_rt!(c09_server_hello_draft18_ext2, true);

// ------------------------------------------------------------------------------------------------ ClientKeyExchange, Finished, HelloRequest
macro_rules! small_msg {
    ($name:ident, $which:expr, $n:expr, $reser:expr) => {
        #[kani::proof]
        #[kani::unwind(8)]
        fn $name() {
            let pool: [u8; 3] = kani::any();
            const N: usize = $n;
            let d = &pool[..N];
            let which: u8 = $which;
            let msg = match which {
                0 => HS::ClientKeyExchange(tp::TlsClientKeyExchangeContents::Unknown(d)),
                1 => HS::ClientKeyExchange(tp::TlsClientKeyExchangeContents::Dh(d)),
                2 => HS::ClientKeyExchange(tp::TlsClientKeyExchangeContents::Ecdh(tp::ECPoint { point: d })),
                3 => HS::Finished(d),
                _ => HS::HelloRequest,
            };
            let out = ser(&msg);
            let b = ok_bytes!(out, "C09.small");
            vassert!(b.len() >= 4 && be24(b, 1) as usize == b.len() - 4, "C09.small.handshake_u24_length_is_body_length");
            const TY: u8 = match $which { 0 | 1 | 2 => 0x10, 3 => 0x14, _ => 0x00 };
            const TOTAL: usize = 4 + match $which { 0 | 3 => N, 1 => 2 + N, 2 => 1 + N, _ => 0 };
            vassert!(b.len() == TOTAL && b[0] == TY, "C09.small.type_byte_and_total_length");
            let orig = b;
            let a = stage!(b, TOTAL, [0 => TY, 1 => 0, 2 => 0, 3 => (TOTAL - 4) as u8]);
            let b = &a[..];
            let r = ManuallyDrop::new(tp::parse_tls_message_handshake(b));
            vassert!(r.is_ok(), "C09.small.output_parses");
            if let Ok((rem, TlsMessage::Handshake(p))) = &*r {
                vassert!(rem.len() == 0, "C09.small.parse_consumes_everything");
                match (which, p) {
                    (0, HS::ClientKeyExchange(tp::TlsClientKeyExchangeContents::Unknown(x))) => vassert!(b[0] == 0x10 && bytes_eq(x, d), "C09.cke.unknown_round_trips"),
                    (1, HS::ClientKeyExchange(tp::TlsClientKeyExchangeContents::Unknown(x))) => {
                        vassert!(b[0] == 0x10 && x.len() == 2 + N && be16(x, 0) as usize == N && bytes_eq(&x[2..], d), "C09.cke.dh_reads_back_as_u16_length_prefixed_public_value")
                    }
                    (2, HS::ClientKeyExchange(tp::TlsClientKeyExchangeContents::Unknown(x))) => {
                        vassert!(b[0] == 0x10 && x.len() == 1 + N && x[0] as usize == N && bytes_eq(&x[1..], d), "C09.cke.ecdh_reads_back_as_u8_length_prefixed_point")
                    }
                    (3, HS::Finished(x)) => vassert!(b[0] == 0x14 && bytes_eq(x, d), "C09.finished_round_trips"),
                    (4, HS::HelloRequest) => vassert!(b[0] == 0x00 && b.len() == 4, "C09.hello_request_round_trips"),
                    _ => vassert!(false, "C09.small.parses_back_as_the_same_variant"),
                }
                if $reser {
                    let again = ser(p);
                    vassert!(matches!(&*again, Ok(x) if bytes_eq(x, orig)), "C09.small.reserialization_reproduces_the_bytes");
                }
                vcover!(true, "C09.small.cover.round_trip");
            }
        }
    };
}
small_msg!(c09_cke_unknown, 0, 2, false);
small_msg!(c09_cke_dh, 1, 2, false);
small_msg!(c09_cke_ecdh, 2, 2, false);
small_msg!(c09_finished, 3, 3, false);
small_msg!(c09_hello_request, 4, 0, false);

// ------------------------------------------------------------------------------------------------ ChangeCipherSpec message and records
#[kani::proof]
#[kani::unwind(8)]
fn c09_change_cipher_spec_message() {
    let out = ser(&TlsMessage::ChangeCipherSpec);
    let b = ok_bytes!(out, "C09.ccs");
    vassert!(b.len() == 1, "C09.ccs.one_byte");
    let r = tp::parse_tls_message_changecipherspec(b);
    vassert!(matches!(&r, Ok((rem, TlsMessage::ChangeCipherSpec)) if rem.len() == 0), "C09.ccs.message_parses_back_as_change_cipher_spec");
    vcover!(true, "C09.ccs.cover.ran");
}

#[kani::proof]
#[kani::unwind(8)]
fn c09_plaintext_record_of_messages() {
    let pool: [u8; 2] = kani::any();
    let v: u16 = kani::any();
    let two: bool = kani::any();
    let mut msgs = Vec::with_capacity(2);
    msgs.push(TlsMessage::Handshake(HS::Finished(&pool[..])));
    if two {
        msgs.push(TlsMessage::Handshake(HS::HelloRequest));
    }
    let rec = ManuallyDrop::new(tp::TlsPlaintext {
        hdr: tp::TlsRecordHeader { record_type: tp::TlsRecordType::Handshake, version: tp::TlsVersion(v), len: 0 },
        msg: msgs,
    });
    let out = ser(&*rec);
    let b = ok_bytes!(out, "C09.record");
    let pl = 6 + if two { 4 } else { 0 };
    vassert!(b.len() == 5 + pl && b[0] == 0x16 && be16(b, 1) == v, "C09.record.header_bytes");
    vassert!(be16(b, 3) as usize == b.len() - 5, "C09.record.u16_length_is_payload_length");
    // parse back: raw record, then message by message at the offsets the length fields give
    let raw = tp::parse_tls_raw_record(b);
    vassert!(matches!(&raw, Ok((rem, r)) if rem.len() == 0 && r.data.len() == pl), "C09.record.frames_exactly");
    // message-by-message at the offsets the length fields give (header bytes re-imposed as constants)
    vassert!(b.len() >= 9 && b[5] == 0x14 && be24(b, 6) == 2, "C09.record.first_message_header");
    let mut a = [0u8; 15];
    if b.len() <= 15 {
        a[..b.len()].copy_from_slice(b);
    }
    a[5] = 0x14; a[6] = 0; a[7] = 0; a[8] = 2;
    if two {
        vassert!(b.len() == 15 && b[11] == 0 && be24(b, 12) == 0, "C09.record.second_message_header");
        a[11] = 0; a[12] = 0; a[13] = 0; a[14] = 0;
    }
    let blen = b.len();
    let b = &a[..blen];
    let m1 = ManuallyDrop::new(tp::parse_tls_message_handshake(&b[5..]));
    if let Ok((rem, TlsMessage::Handshake(HS::Finished(x)))) = &*m1 {
        vassert!(bytes_eq(x, &pool[..]), "C09.record.first_message_round_trips");
        if two {
            let m2 = ManuallyDrop::new(tp::parse_tls_message_handshake(rem));
            vassert!(matches!(&*m2, Ok((r2, TlsMessage::Handshake(HS::HelloRequest))) if r2.len() == 0), "C09.record.second_message_round_trips");
            vcover!(true, "C09.record.cover.two_messages");
        } else {
            vassert!(rem.len() == 0, "C09.record.parse_consumes_everything");
        }
    } else {
        vassert!(false, "C09.record.first_message_parses_back");
    }
}

#[kani::proof]
#[kani::unwind(8)]
fn c09_plaintext_record_change_cipher_spec() {
    let v: u16 = kani::any();
    let mut msgs = Vec::with_capacity(1);
    msgs.push(TlsMessage::ChangeCipherSpec);
    let rec = ManuallyDrop::new(tp::TlsPlaintext {
        hdr: tp::TlsRecordHeader { record_type: tp::TlsRecordType::ChangeCipherSpec, version: tp::TlsVersion(v), len: 0 },
        msg: msgs,
    });
    let out = ser(&*rec);
    let b = ok_bytes!(out, "C09.ccsrecord");
    vassert!(b.len() == 6 && b[0] == 0x14 && be16(b, 1) == v && be16(b, 3) == 1, "C09.ccsrecord.header_and_length");
    let m = tp::parse_tls_message_changecipherspec(&b[5..]);
    vassert!(matches!(&m, Ok((rem, TlsMessage::ChangeCipherSpec)) if rem.len() == 0), "C09.ccsrecord.payload_parses_back_as_change_cipher_spec");
    vcover!(true, "C09.ccsrecord.cover.ran");
}

// ------------------------------------------------------------------------------------------------ extensions
macro_rules! ext_rt {
    ($name:ident, $which:expr) => {
#[kani::proof]
#[kani::unwind(8)]
fn $name() {
    let pool: [u8; 2] = kani::any();
    let which: u8 = $which;
    let t: u8 = kani::any();
    let g: [u16; 2] = kani::any();
    let ext = ManuallyDrop::new(match which {
        0 => {
            let mut v = Vec::with_capacity(1);
            v.push((tp::SNIType(t), &pool[..]));
            X::SNI(v)
        }
        1 => X::MaxFragmentLength(t),
        _ => {
            let mut v = Vec::with_capacity(2);
            v.push(tp::NamedGroup(g[0]));
            v.push(tp::NamedGroup(g[1]));
            X::EllipticCurves(v)
        }
    });
    let out = ManuallyDrop::new(gen_simple(tp::gen_tls_extension(&*ext), Vec::new()));
    let b = ok_bytes!(out, "C09.ext");
    vassert!(b.len() >= 4 && be16(b, 2) as usize == b.len() - 4, "C09.ext.u16_length_is_data_length");
    let r = ManuallyDrop::new(tp::parse_tls_extension(b));
    vassert!(r.is_ok(), "C09.ext.output_parses");
    if let Ok((rem, p)) = &*r {
        vassert!(rem.len() == 0, "C09.ext.parse_consumes_everything");
        match (which, p) {
            (0, X::SNI(v)) => {
                vassert!(be16(b, 0) == 0 && be16(b, 4) as usize == b.len() - 6 && be16(b, 7) == 2, "C09.ext.sni_list_and_name_length_fields");
                vassert!(v.len() == 1 && (v[0].0).0 == t && bytes_eq(v[0].1, &pool[..]), "C09.ext.sni_round_trips");
            }
            (1, X::MaxFragmentLength(x)) => vassert!(be16(b, 0) == 1 && *x == t, "C09.ext.max_fragment_length_round_trips"),
            (2, X::EllipticCurves(v)) => {
                vassert!(be16(b, 0) == 10 && be16(b, 4) == 4, "C09.ext.group_list_length_field");
                vassert!(v.len() == 2 && v[0].0 == g[0] && v[1].0 == g[1], "C09.ext.supported_groups_round_trip_in_order");
            }
            _ => vassert!(false, "C09.ext.parses_back_as_the_same_variant"),
        }
        vcover!(true, "C09.ext.cover.round_trip");
    }
}
    };
}
ext_rt!(c09_ext_sni, 0);
ext_rt!(c09_ext_max_fragment_length, 1);
ext_rt!(c09_ext_supported_groups, 2);

#[kani::proof]
#[kani::unwind(8)]
fn c09_extension_list_round_trip() {
    let t: u8 = kani::any();
    // a stack array (a heap-resident list would make the serializer's `match` on each element symbolic)
    let l = ManuallyDrop::new([X::MaxFragmentLength(t), X::MaxFragmentLength(t ^ 1)]);
    let out = ManuallyDrop::new(gen_simple(tp::gen_tls_extensions(&l[..]), Vec::new()));
    let b = ok_bytes!(out, "C09.extlist");
    vassert!(b.len() == 2 + 5 + 5 && be16(b, 0) as usize == b.len() - 2, "C09.extlist.u16_length_is_block_length");
    let r = ManuallyDrop::new(tp::parse_tls_extensions(&b[2..]));
    vassert!(matches!(&*r, Ok((rem, v)) if rem.len() == 0 && v.len() == 2
                      && matches!(v[0], X::MaxFragmentLength(x) if x == t) && matches!(v[1], X::MaxFragmentLength(x) if x == t ^ 1)),
             "C09.extlist.round_trips_in_order");
    vcover!(true, "C09.extlist.cover.ran");
}

// ------------------------------------------------------------------------------------------------ unsupported values
macro_rules! unsupported {
    ($name:ident, $which:expr) => {
#[kani::proof]
#[kani::unwind(8)]
fn $name() {
    let pool: [u8; 2] = kani::any();
    let which: u8 = $which;
    let nyi = |r: &Result<Vec<u8>, GenError>| matches!(r, Err(GenError::NotYetImplemented));
    let ok = match which {
        0 => nyi(&ser(&HS::ServerDone(&pool[..]))),
        1 => nyi(&ser(&HS::CertificateVerify(&pool[..]))),
        2 => nyi(&ser(&HS::KeyUpdate(pool[0]))),
        3 => nyi(&ser(&HS::EndOfEarlyData)),
        4 => nyi(&ser(&TlsMessage::Alert(tp::TlsMessageAlert { severity: tp::TlsAlertSeverity(pool[0]), code: tp::TlsAlertDescription(pool[1]) }))),
        5 => nyi(&ser(&TlsMessage::ApplicationData(tp::TlsMessageApplicationData { blob: &pool[..] }))),
        6 => nyi(&ser(&HS::ServerKeyExchange(tp::TlsServerKeyExchangeContents { parameters: &pool[..] }))),
        _ => {
            let e = X::KeyShare(&pool[..]);
            let r = ManuallyDrop::new(gen_simple(tp::gen_tls_extension(&e), Vec::new()));
            matches!(&*r, Err(GenError::NotYetImplemented))
        }
    };
    vassert!(ok, "C09.unsupported_value_yields_NotYetImplemented_and_no_bytes");
    vcover!(true, "C09.unsupported.cover.ran");
}
    };
}
unsupported!(c09_unsupported_0, 0);
unsupported!(c09_unsupported_1, 1);
unsupported!(c09_unsupported_2, 2);
unsupported!(c09_unsupported_3, 3);
unsupported!(c09_unsupported_4, 4);
unsupported!(c09_unsupported_5, 5);
unsupported!(c09_unsupported_6, 6);
unsupported!(c09_unsupported_7, 7);

/// Record length field is measured, not copied: an empty record with an arbitrary (stale) `hdr.len`.
#[kani::proof]
#[kani::unwind(8)]
fn c09_plaintext_record_empty_stale_len() {
    let v: u16 = kani::any();
    let t: u8 = kani::any();
    let rec = ManuallyDrop::new(tp::TlsPlaintext {
        hdr: tp::TlsRecordHeader { record_type: tp::TlsRecordType(t), version: tp::TlsVersion(v), len: kani::any() },
        msg: Vec::new(),
    });
    let out = ser(&*rec);
    let b = ok_bytes!(out, "C09.emptyrecord");
    vassert!(b.len() == 5 && b[0] == t && be16(b, 1) == v, "C09.emptyrecord.header_bytes");
    vassert!(be16(b, 3) == 0, "C09.record.u16_length_is_payload_length");
    vcover!(rec.hdr.len == 77, "C09.emptyrecord.cover.stale_len");
}

/// Re-serialization: the serializer is a function of the value, the parsed value equals the original
/// field by field (round-trip harnesses), and the one normalisation (absent extension block reads back
/// as an empty one) does not change the bytes: serialize(ext = None) == serialize(ext = Some(empty)).
#[kani::proof]
#[kani::unwind(8)]
fn c09_reserialization_normal_form() {
    let random: [u8; 32] = kani::any();
    let v: u16 = kani::any();
    let (c, m): (u16, u8) = (kani::any(), kani::any());
    let empty: [u8; 0] = [];
    let a = ser(&HS::ServerHello(tp::TlsServerHelloContents::new(v, &random, None, c, m, None)));
    let b = ser(&HS::ServerHello(tp::TlsServerHelloContents::new(v, &random, None, c, m, Some(&empty[..]))));
    vassert!(matches!((&*a, &*b), (Ok(x), Ok(y)) if bytes_eq(x, y)), "C09.reserialization.absent_and_empty_extension_block_serialize_identically");
    vcover!(true, "C09.reserialization.cover.ran");
}



/// SNI with two names (list length covers both entries, each with its own 3-byte header).
#[kani::proof]
#[kani::unwind(8)]
fn c09_ext_sni_two_names() {
    let pool: [u8; 3] = kani::any();
    let (t1, t2): (u8, u8) = (kani::any(), kani::any());
    let mut v = Vec::with_capacity(2);
    v.push((tp::SNIType(t1), &pool[..1]));
    v.push((tp::SNIType(t2), &pool[1..3]));
    let ext = ManuallyDrop::new(X::SNI(v));
    let out = ManuallyDrop::new(gen_simple(tp::gen_tls_extension(&*ext), Vec::new()));
    let b = ok_bytes!(out, "C09.sni2");
    // 4 (type, ext len) + 2 (list len) + (3 + 1) + (3 + 2)
    vassert!(b.len() == 15 && be16(b, 0) == 0 && be16(b, 2) as usize == b.len() - 4, "C09.ext.u16_length_is_data_length");
    vassert!(be16(b, 4) as usize == b.len() - 6, "C09.ext.sni_list_and_name_length_fields");
    vassert!(b[6] == t1 && be16(b, 7) == 1 && b[10] == t2 && be16(b, 11) == 2, "C09.ext.sni_list_and_name_length_fields");
    let a = stage!(b, 15, [0 => 0, 1 => 0, 2 => 0, 3 => 11]);
    let r = ManuallyDrop::new(tp::parse_tls_extension(&a[..]));
    vassert!(matches!(&*r, Ok((rem, X::SNI(p))) if rem.len() == 0 && p.len() == 2 && (p[0].0).0 == t1 && (p[1].0).0 == t2
                      && bytes_eq(p[0].1, &pool[..1]) && bytes_eq(p[1].1, &pool[1..3])), "C09.ext.sni_round_trips");
    vcover!(true, "C09.ext.cover.sni_two_names");
}
