//! C08 — handshake state machine accepts exactly the documented TLS flows.
//!
//! `impl(state, msg, dir) == ref(state, kind(msg), dir, sid_present, severity)` for every cell of
//! the finite abstract domain and *arbitrary* message payloads: equality of the one-step relation
//! gives equality of the accepted sequence language, and because `ref` does not look at payload
//! bytes, content independence is part of the same verdict.
use crate::{vassert, vcover};
use alloc::vec::Vec;
use core::mem::ManuallyDrop;
use tls_parser as tp;
use tp::TlsState as S;
use tp::*;

pub const N_STATES: u8 = 25;

#[inline(always)]
pub fn state_of(i: u8) -> S {
    match i {
        0 => S::None,
        1 => S::ClientHello,
        2 => S::AskResumeSession,
        3 => S::ResumeSession,
        4 => S::ServerHello,
        5 => S::Certificate,
        6 => S::CertificateSt,
        7 => S::ServerKeyExchange,
        8 => S::ServerHelloDone,
        9 => S::ClientKeyExchange,
        10 => S::ClientChangeCipherSpec,
        11 => S::CRCertRequest,
        12 => S::CRHelloDone,
        13 => S::CRCert,
        14 => S::CRClientKeyExchange,
        15 => S::CRCertVerify,
        16 => S::NoCertSKE,
        17 => S::NoCertHelloDone,
        18 => S::NoCertCKE,
        19 => S::PskHelloDone,
        20 => S::PskCKE,
        21 => S::SessionEncrypted,
        22 => S::Alert,
        23 => S::Finished,
        _ => S::Invalid,
    }
}

/// Message kinds (abstract alphabet).
#[derive(Clone, Copy, PartialEq, Eq)]
pub enum K {
    HelloRequest,
    ClientHello,
    ServerHello,
    ServerHelloV13Draft18,
    NewSessionTicket,
    EndOfEarlyData,
    HelloRetryRequest,
    Certificate,
    ServerKeyExchange,
    CertificateRequest,
    ServerDone,
    CertificateVerify,
    ClientKeyExchange,
    Finished,
    CertificateStatus,
    NextProtocol,
    KeyUpdate,
    Ccs,
    Alert,
    AppData,
    Heartbeat,
}
pub const N_KINDS: u8 = 21;

#[inline(always)]
pub fn kind_of(i: u8) -> K {
    match i {
        0 => K::HelloRequest,
        1 => K::ClientHello,
        2 => K::ServerHello,
        3 => K::ServerHelloV13Draft18,
        4 => K::NewSessionTicket,
        5 => K::EndOfEarlyData,
        6 => K::HelloRetryRequest,
        7 => K::Certificate,
        8 => K::ServerKeyExchange,
        9 => K::CertificateRequest,
        10 => K::ServerDone,
        11 => K::CertificateVerify,
        12 => K::ClientKeyExchange,
        13 => K::Finished,
        14 => K::CertificateStatus,
        15 => K::NextProtocol,
        16 => K::KeyUpdate,
        17 => K::Ccs,
        18 => K::Alert,
        19 => K::AppData,
        _ => K::Heartbeat,
    }
}

const TO_SERVER: bool = true; // client -> server
const TO_CLIENT: bool = false; // server -> client

/// Reference transition relation, transcribed from the flows listed in the property.
/// `None` = rejected with InvalidTransition.
pub fn ref_transition(s: S, k: K, to_server: bool, sid_present: bool, severity: u8) -> Option<S> {
    // absorbing states and Finished come first and never error
    match s {
        S::Invalid => return Some(S::Invalid),
        S::SessionEncrypted => return Some(S::SessionEncrypted),
        S::Finished => return Some(S::Invalid),
        _ => {}
    }
    match k {
        // HelloRequest is ignored in every state except None
        K::HelloRequest => {
            if s == S::None {
                None
            } else {
                Some(s)
            }
        }
        K::Alert => {
            if severity == 1 {
                Some(s)
            } else {
                Some(S::Finished)
            }
        }
        // ---- client -> server handshake messages
        K::ClientHello => match (s, to_server) {
            (S::None, TO_SERVER) => Some(if sid_present { S::AskResumeSession } else { S::ClientHello }),
            _ => None,
        },
        K::ClientKeyExchange => match (s, to_server) {
            (S::ServerHelloDone, TO_SERVER) => Some(S::ClientKeyExchange), // full handshake
            (S::CRCert, TO_SERVER) => Some(S::CRClientKeyExchange),        // client cert requested
            (S::NoCertHelloDone, TO_SERVER) => Some(S::NoCertCKE),         // anonymous server
            (S::PskHelloDone, TO_SERVER) => Some(S::PskCKE),               // no ServerKeyExchange
            _ => None,
        },
        K::CertificateVerify => match (s, to_server) {
            (S::CRClientKeyExchange, TO_SERVER) => Some(S::CRCertVerify),
            _ => None,
        },
        // ---- server -> client handshake messages
        K::ServerHello => match (s, to_server) {
            (S::ClientHello, TO_CLIENT) => Some(S::ServerHello),
            (S::AskResumeSession, TO_CLIENT) => Some(S::ResumeSession),
            _ => None,
        },
        K::ServerHelloV13Draft18 => match (s, to_server) {
            (S::ClientHello, TO_CLIENT) => Some(S::ClientChangeCipherSpec), // draft-18 1-RTT
            _ => None,
        },
        K::Certificate => match (s, to_server) {
            (S::ServerHello, TO_CLIENT) => Some(S::Certificate),
            (S::ResumeSession, TO_CLIENT) => Some(S::Certificate), // resumption refused: full handshake
            (S::CRHelloDone, TO_SERVER) => Some(S::CRCert),         // client certificate
            _ => None,
        },
        K::CertificateStatus => match (s, to_server) {
            (S::Certificate, TO_CLIENT) => Some(S::CertificateSt),
            _ => None,
        },
        K::ServerKeyExchange => match (s, to_server) {
            (S::Certificate, TO_CLIENT) => Some(S::ServerKeyExchange),
            (S::CertificateSt, TO_CLIENT) => Some(S::ServerKeyExchange),
            (S::ServerHello, TO_CLIENT) => Some(S::NoCertSKE), // anonymous server
            _ => None,
        },
        K::CertificateRequest => match (s, to_server) {
            (S::Certificate, TO_CLIENT) => Some(S::CRCertRequest),
            (S::ServerKeyExchange, TO_CLIENT) => Some(S::CRCertRequest),
            _ => None,
        },
        K::ServerDone => match (s, to_server) {
            (S::ServerKeyExchange, TO_CLIENT) => Some(S::ServerHelloDone),
            (S::CRCertRequest, TO_CLIENT) => Some(S::CRHelloDone),
            (S::NoCertSKE, TO_CLIENT) => Some(S::NoCertHelloDone),
            (S::Certificate, TO_CLIENT) => Some(S::PskHelloDone), // key exchange without ServerKeyExchange
            _ => None,
        },
        K::NewSessionTicket => match (s, to_server) {
            (S::ClientChangeCipherSpec, TO_CLIENT) => Some(S::ClientChangeCipherSpec), // post-CCS ticket
            _ => None,
        },
        // ---- ChangeCipherSpec (not a handshake message: the property pins its direction only for
        // the server's final CCS and for the 0-RTT client CCS)
        K::Ccs => match (s, to_server) {
            (S::ClientKeyExchange, _) => Some(S::ClientChangeCipherSpec),
            (S::CRClientKeyExchange, _) => Some(S::ClientChangeCipherSpec),
            (S::CRCertVerify, _) => Some(S::ClientChangeCipherSpec),
            (S::NoCertCKE, _) => Some(S::ClientChangeCipherSpec),
            (S::PskCKE, _) => Some(S::ClientChangeCipherSpec),
            (S::ResumeSession, _) => Some(S::ClientChangeCipherSpec),
            (S::ClientChangeCipherSpec, TO_CLIENT) => Some(S::SessionEncrypted),
            (S::AskResumeSession, TO_SERVER) => Some(S::AskResumeSession), // 0-RTT
            _ => None,
        },
        // not part of any modelled flow
        K::EndOfEarlyData
        | K::HelloRetryRequest
        | K::Finished
        | K::NextProtocol
        | K::KeyUpdate
        | K::AppData
        | K::Heartbeat => None,
    }
}

/// Build a message of kind `k` with arbitrary (symbolic) payload. `pool` supplies payload bytes.
fn build<'a>(k: K, pool: &'a [u8; 4], sid_present: bool, severity: u8) -> TlsMessage<'a> {
    let l1: usize = kani::any();
    let l2: usize = kani::any();
    kani::assume(l1 <= 2 && l2 <= 2);
    let s1 = &pool[..l1];
    let s2 = &pool[2..2 + l2];
    let opt2 = if kani::any() { Some(s2) } else { None };
    let hs = |h| TlsMessage::Handshake(h);
    match k {
        K::HelloRequest => hs(TlsMessageHandshake::HelloRequest),
        K::ClientHello => {
            let mut ciphers = Vec::new();
            if kani::any() {
                ciphers.push(TlsCipherSuiteID(kani::any()));
            }
            let mut comp = Vec::new();
            if kani::any() {
                comp.push(TlsCompressionID(kani::any()));
            }
            hs(TlsMessageHandshake::ClientHello(TlsClientHelloContents::new(
                kani::any(),
                s1,
                if sid_present { Some(s2) } else { None },
                ciphers,
                comp,
                None,
            )))
        }
        K::ServerHello => hs(TlsMessageHandshake::ServerHello(TlsServerHelloContents::new(
            kani::any(),
            s1,
            opt2,
            kani::any(),
            kani::any(),
            None,
        ))),
        K::ServerHelloV13Draft18 => hs(TlsMessageHandshake::ServerHelloV13Draft18(
            TlsServerHelloV13Draft18Contents {
                version: TlsVersion(kani::any()),
                random: s1,
                cipher: TlsCipherSuiteID(kani::any()),
                ext: opt2,
            },
        )),
        K::NewSessionTicket => hs(TlsMessageHandshake::NewSessionTicket(TlsNewSessionTicketContent {
            ticket_lifetime_hint: kani::any(),
            ticket: s1,
        })),
        K::EndOfEarlyData => hs(TlsMessageHandshake::EndOfEarlyData),
        K::HelloRetryRequest => hs(TlsMessageHandshake::HelloRetryRequest(TlsHelloRetryRequestContents {
            version: TlsVersion(kani::any()),
            cipher: TlsCipherSuiteID(kani::any()),
            ext: opt2,
        })),
        K::Certificate => {
            let mut cert_chain = Vec::new();
            if kani::any() {
                cert_chain.push(RawCertificate { data: s1 });
            }
            hs(TlsMessageHandshake::Certificate(TlsCertificateContents { cert_chain }))
        }
        K::ServerKeyExchange => hs(TlsMessageHandshake::ServerKeyExchange(TlsServerKeyExchangeContents {
            parameters: s1,
        })),
        K::CertificateRequest => {
            let mut cert_types = Vec::new();
            if kani::any() {
                cert_types.push(kani::any());
            }
            hs(TlsMessageHandshake::CertificateRequest(TlsCertificateRequestContents {
                cert_types,
                sig_hash_algs: None,
                unparsed_ca: Vec::new(),
            }))
        }
        K::ServerDone => hs(TlsMessageHandshake::ServerDone(s1)),
        K::CertificateVerify => hs(TlsMessageHandshake::CertificateVerify(s1)),
        K::ClientKeyExchange => {
            let c: u8 = kani::any();
            hs(TlsMessageHandshake::ClientKeyExchange(match c % 3 {
                0 => TlsClientKeyExchangeContents::Dh(s1),
                1 => TlsClientKeyExchangeContents::Ecdh(ECPoint { point: s1 }),
                _ => TlsClientKeyExchangeContents::Unknown(s1),
            }))
        }
        K::Finished => hs(TlsMessageHandshake::Finished(s1)),
        K::CertificateStatus => hs(TlsMessageHandshake::CertificateStatus(TlsCertificateStatusContents {
            status_type: kani::any(),
            blob: s1,
        })),
        K::NextProtocol => hs(TlsMessageHandshake::NextProtocol(TlsNextProtocolContent {
            selected_protocol: s1,
            padding: s2,
        })),
        K::KeyUpdate => hs(TlsMessageHandshake::KeyUpdate(kani::any())),
        K::Ccs => TlsMessage::ChangeCipherSpec,
        K::Alert => TlsMessage::Alert(TlsMessageAlert {
            severity: TlsAlertSeverity(severity),
            code: TlsAlertDescription(kani::any()),
        }),
        K::AppData => TlsMessage::ApplicationData(TlsMessageApplicationData { blob: s1 }),
        K::Heartbeat => TlsMessage::Heartbeat(TlsMessageHeartbeat {
            heartbeat_type: TlsHeartbeatMessageType(kani::any()),
            payload_len: kani::any(),
            payload: s1,
        }),
    }
}

fn check_cell(si: u8, ki: u8) {
    let dir: bool = kani::any();
    let sid_present: bool = kani::any();
    let severity: u8 = kani::any();
    let pool: [u8; 4] = kani::any();
    let s = state_of(si);
    let k = kind_of(ki);
    let msg = ManuallyDrop::new(build(k, &pool, sid_present, severity));
    let got = tls_state_transition(s, &msg, dir);
    let want = ref_transition(s, k, dir, sid_present, severity);
    match (&got, want) {
        (Ok(g), Some(w)) => {
            vassert!(*g == w, "C08.table.next_state_equals_reference");
            vcover!(*g != s, "C08.cover.moves");
        }
        (Err(e), None) => {
            vassert!(*e == StateChangeError::InvalidTransition, "C08.table.rejects_with_InvalidTransition");
            vcover!(true, "C08.cover.rejected");
        }
        (Ok(_), None) => vassert!(false, "C08.table.accepts_transition_outside_the_documented_flows"),
        (Err(_), Some(_)) => vassert!(false, "C08.table.rejects_transition_of_a_documented_flow"),
    }
}

/// All 25 x 21 x 2 x 2 x 256 cells, arbitrary payloads, one harness per message kind group.
macro_rules! table_harness {
    ($name:ident, $lo:expr, $hi:expr) => {
        #[kani::proof]
        #[kani::unwind(4)]
        fn $name() {
            let si: u8 = kani::any();
            kani::assume(si < N_STATES);
            let ki: u8 = kani::any();
            kani::assume(ki >= $lo && ki <= $hi);
            check_cell(si, ki);
        }
    };
}
table_harness!(c08_table_k00_06, 0, 6);
table_harness!(c08_table_k07_12, 7, 12);
table_harness!(c08_table_k13_20, 13, 20);

/// Reachability witness: the documented full handshake with CertificateStatus runs from None to
/// SessionEncrypted, and the resumption flow does too (guards against a vacuous table check).
#[kani::proof]
#[kani::unwind(4)]
fn c08_flows_witness() {
    let pool: [u8; 4] = kani::any();
    let step = |s: S, k: K, dir: bool, sid: bool| -> S {
        let m = ManuallyDrop::new(build(k, &pool, sid, 2));
        match tls_state_transition(s, &m, dir) {
            Ok(n) => n,
            Err(_) => {
                vassert!(false, "C08.flow.documented_flow_step_rejected");
                S::Invalid
            }
        }
    };
    // full handshake
    let mut s = S::None;
    s = step(s, K::ClientHello, true, false);
    s = step(s, K::ServerHello, false, false);
    s = step(s, K::Certificate, false, false);
    s = step(s, K::CertificateStatus, false, false);
    s = step(s, K::ServerKeyExchange, false, false);
    s = step(s, K::ServerDone, false, false);
    s = step(s, K::ClientKeyExchange, true, false);
    s = step(s, K::Ccs, true, false);
    s = step(s, K::NewSessionTicket, false, false);
    s = step(s, K::Ccs, false, false);
    vassert!(s == S::SessionEncrypted, "C08.flow.full_handshake_reaches_SessionEncrypted");
    // client-certificate flow
    let mut s = S::None;
    s = step(s, K::ClientHello, true, false);
    s = step(s, K::ServerHello, false, false);
    s = step(s, K::Certificate, false, false);
    s = step(s, K::ServerKeyExchange, false, false);
    s = step(s, K::CertificateRequest, false, false);
    s = step(s, K::ServerDone, false, false);
    s = step(s, K::Certificate, true, false);
    s = step(s, K::ClientKeyExchange, true, false);
    s = step(s, K::CertificateVerify, true, false);
    s = step(s, K::Ccs, true, false);
    s = step(s, K::Ccs, false, false);
    vassert!(s == S::SessionEncrypted, "C08.flow.client_cert_flow_reaches_SessionEncrypted");
    // resumption
    let mut s = S::None;
    s = step(s, K::ClientHello, true, true);
    s = step(s, K::Ccs, true, true); // 0-RTT CCS
    s = step(s, K::ServerHello, false, false);
    s = step(s, K::Ccs, false, false);
    s = step(s, K::Ccs, false, false);
    vassert!(s == S::SessionEncrypted, "C08.flow.resumption_reaches_SessionEncrypted");
    vcover!(true, "C08.cover.flows_ran");
}

/// Vacuity guard (thorough tier): must FAIL.
#[cfg(feature = "thorough")]
#[kani::proof]
#[kani::unwind(4)]
fn c08_false_twin() {
    let si: u8 = kani::any();
    kani::assume(si < N_STATES);
    let ki: u8 = kani::any();
    kani::assume(ki <= 6);
    check_cell(si, ki);
    vassert!(false, "C08.false_twin");
}
