//! C17 (E1 part) — integer conversions are identities; numeric text of versions and cipher ids; a few
//! name tables re-checked on compiled code so that the MIR->SMT engine (E2) is cross-checked.
use crate::util::*;
use crate::{vassert, vcover};
use core::fmt::{self, Write};
use tls_parser as tp;

/// Fixed-size formatting sink.
pub struct Sink {
    pub buf: [u8; 64],
    pub len: usize,
    pub overflow: bool,
}
impl Sink {
    pub fn new() -> Self {
        Sink { buf: [0; 64], len: 0, overflow: false }
    }
    pub fn is(&self, s: &[u8]) -> bool {
        if self.overflow || self.len != s.len() {
            return false;
        }
        let mut k = 0;
        while k < s.len() {
            if self.buf[k] != s[k] {
                return false;
            }
            k += 1;
        }
        true
    }
}
impl Write for Sink {
    fn write_str(&mut self, s: &str) -> fmt::Result {
        let b = s.as_bytes();
        let mut k = 0;
        while k < b.len() {
            if self.len >= 64 {
                self.overflow = true;
                return Ok(());
            }
            self.buf[self.len] = b[k];
            self.len += 1;
            k += 1;
        }
        Ok(())
    }
}

/// Reference renderers.
fn ref_dec(mut v: u32, out: &mut [u8; 16]) -> usize {
    let mut tmp = [0u8; 10];
    let mut n = 0;
    loop {
        tmp[n] = b'0' + (v % 10) as u8;
        n += 1;
        v /= 10;
        if v == 0 {
            break;
        }
    }
    let mut k = 0;
    while k < n {
        out[k] = tmp[n - 1 - k];
        k += 1;
    }
    n
}
fn ref_hex(mut v: u32, min_digits: usize, out: &mut [u8; 16]) -> usize {
    let mut tmp = [0u8; 8];
    let mut n = 0;
    loop {
        let d = (v & 0xf) as u8;
        tmp[n] = if d < 10 { b'0' + d } else { b'a' + d - 10 };
        n += 1;
        v >>= 4;
        if v == 0 {
            break;
        }
    }
    while n < min_digits {
        tmp[n] = b'0';
        n += 1;
    }
    let mut k = 0;
    while k < n {
        out[k] = tmp[n - 1 - k];
        k += 1;
    }
    n
}

#[kani::proof]
#[kani::unwind(4)]
fn c17_conversions_are_identities() {
    let a: u8 = kani::any();
    let w: u16 = kani::any();
    vassert!(u8::from(tp::TlsRecordType(a)) == a, "C17.conv.TlsRecordType_into_u8");
    vassert!(u8::from(tp::TlsHandshakeType(a)) == a, "C17.conv.TlsHandshakeType_into_u8");
    vassert!(u8::from(tp::TlsHeartbeatMessageType(a)) == a, "C17.conv.TlsHeartbeatMessageType_into_u8");
    vassert!(u8::from(tp::TlsCompressionID(a)) == a, "C17.conv.TlsCompressionID_into_u8");
    vassert!(*tp::TlsCompressionID(a) == a, "C17.conv.TlsCompressionID_deref");
    vassert!(*AsRef::<u8>::as_ref(&tp::TlsCompressionID(a)) == a, "C17.conv.TlsCompressionID_as_ref");
    vassert!(u16::from(tp::TlsVersion(w)) == w, "C17.conv.TlsVersion_into_u16");
    vassert!(tp::TlsVersion(w).to_be_bytes() == [(w >> 8) as u8, w as u8], "C17.conv.TlsVersion_to_be_bytes");
    vassert!(u16::from(tp::TlsCipherSuiteID(w)) == w, "C17.conv.TlsCipherSuiteID_into_u16");
    vassert!(*tp::TlsCipherSuiteID(w) == w, "C17.conv.TlsCipherSuiteID_deref");
    vassert!(*AsRef::<u16>::as_ref(&tp::TlsCipherSuiteID(w)) == w, "C17.conv.TlsCipherSuiteID_as_ref");
    vassert!(u16::from(tp::TlsExtensionType(w)) == w, "C17.conv.TlsExtensionType_into_u16");
    vassert!(tp::TlsExtensionType::from_u16(w).0 == w, "C17.conv.TlsExtensionType_from_u16");
    let s = tp::SignatureScheme(w);
    vassert!(s.hash_alg() == (w >> 8) as u8 && s.sign_alg() == (w & 0xff) as u8, "C17.conv.signature_scheme_split");
    vassert!(s.is_reserved() == (w >= 0xfe00 && w <= 0xfeff), "C17.conv.signature_scheme_reserved_range");
    vcover!(w == 0xfe00, "C17.cover.reserved_lower_bound");
}

#[kani::proof]
#[kani::unwind(12)]
fn c17_lowerhex_and_display_text() {
    let w: u16 = kani::any();
    let mut want = [0u8; 16];
    let n = ref_hex(w as u32, 1, &mut want);
    let mut s = Sink::new();
    let _ = write!(s, "{:x}", tp::TlsVersion(w));
    vassert!(s.is(&want[..n]), "C17.text.TlsVersion_lowerhex");
    let mut s = Sink::new();
    let _ = write!(s, "{:x}", tp::TlsCipherSuiteID(w));
    vassert!(s.is(&want[..n]), "C17.text.TlsCipherSuiteID_lowerhex");
    let n = ref_dec(w as u32, &mut want);
    let mut s = Sink::new();
    let _ = write!(s, "{}", tp::TlsCipherSuiteID(w));
    vassert!(s.is(&want[..n]), "C17.text.TlsCipherSuiteID_display_is_decimal_id");
    vcover!(w == 0x0303, "C17.cover.text_tls12");
}

/// Display of a record type: the constant's name, or `TlsRecordType(<dec> / 0x<hex>)`.
#[kani::proof]
#[kani::unwind(30)]
fn c17_record_type_display_text() {
    let v: u8 = kani::any();
    let mut s = Sink::new();
    let _ = write!(s, "{}", tp::TlsRecordType(v));
    let name: Option<&[u8]> = match v {
        20 => Some(b"ChangeCipherSpec"),
        21 => Some(b"Alert"),
        22 => Some(b"Handshake"),
        23 => Some(b"ApplicationData"),
        24 => Some(b"Heartbeat"),
        _ => None,
    };
    match name {
        Some(n) => vassert!(s.is(n), "C17.text.record_type_name"),
        None => {
            let mut want = [0u8; 40];
            let pre = b"TlsRecordType(";
            let mut k = 0;
            while k < pre.len() {
                want[k] = pre[k];
                k += 1;
            }
            let mut d = [0u8; 16];
            let n = ref_dec(v as u32, &mut d);
            let mut j = 0;
            while j < n {
                want[k] = d[j];
                k += 1;
                j += 1;
            }
            let mid = b" / 0x";
            let mut j = 0;
            while j < mid.len() {
                want[k] = mid[j];
                k += 1;
                j += 1;
            }
            let n = ref_hex(v as u32, 1, &mut d);
            let mut j = 0;
            while j < n {
                want[k] = d[j];
                k += 1;
                j += 1;
            }
            want[k] = b')';
            k += 1;
            vassert!(s.is(&want[..k]), "C17.text.record_type_numeric_fallback_contains_value");
            vcover!(v == 129, "C17.cover.fallback_129");
        }
    }
    // Debug prints the same text for the types declared with `impl debug`
    let mut d = Sink::new();
    let _ = write!(d, "{:?}", tp::TlsRecordType(v));
    vassert!(d.len == s.len && d.is(&s.buf[..s.len]), "C17.text.record_type_debug_equals_display");
}

/// Debug of a cipher id: `0x%04x(<name>)` or `0x%04x(Unknown cipher)`.
#[kani::proof]
#[kani::unwind(60)]
fn c17_cipher_id_debug_text() {
    let w: u16 = kani::any();
    let mut s = Sink::new();
    let _ = write!(s, "{:?}", tp::TlsCipherSuiteID(w));
    let mut want = [0u8; 64];
    want[0] = b'0';
    want[1] = b'x';
    let mut d = [0u8; 16];
    let n = ref_hex(w as u32, 4, &mut d);
    let mut k = 2;
    let mut j = 0;
    while j < n {
        want[k] = d[j];
        k += 1;
        j += 1;
    }
    want[k] = b'(';
    k += 1;
    let name: &[u8] = match tp::TlsCipherSuite::from_id(w) {
        Some(c) => c.name.as_bytes(),
        None => b"Unknown cipher",
    };
    kani::assume(name.len() <= 50);
    let mut j = 0;
    while j < name.len() {
        want[k] = name[j];
        k += 1;
        j += 1;
    }
    want[k] = b')';
    k += 1;
    vassert!(s.is(&want[..k]), "C17.text.cipher_id_debug");
    vcover!(tp::TlsCipherSuite::from_id(w).is_none(), "C17.cover.debug_unknown_cipher");
    vcover!(w == 0x1301, "C17.cover.debug_known_cipher");
}
