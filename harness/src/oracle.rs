//! Reference decoders (oracles). Index-based transcriptions of the wire formats named in the
//! properties; no nom, no allocation.
use crate::util::*;

pub const MAX_RECORD_LEN: usize = (1 << 14) + 256;

/// Verdict of the record framing oracle (C02 / C10).
#[derive(Clone, Copy, PartialEq, Eq, Debug)]
pub enum Frame {
    /// fewer than `hdr` bytes: Incomplete, size unspecified
    ShortHeader,
    /// declared length above the cap
    TooLarge,
    /// header complete, `missing` bytes missing
    Short { missing: usize },
    /// complete record: payload is b[hdr..hdr+len]
    Ok { len: usize },
}

/// `hdr` = 5 (TLS) or 13 (DTLS); the length field is the last two header bytes.
#[inline(always)]
pub fn ref_frame(b: &[u8], hdr: usize) -> Frame {
    if b.len() < hdr {
        return Frame::ShortHeader;
    }
    let l = be16(b, hdr - 2) as usize;
    if l > MAX_RECORD_LEN {
        return Frame::TooLarge;
    }
    if b.len() < hdr + l {
        return Frame::Short { missing: hdr + l - b.len() };
    }
    Frame::Ok { len: l }
}

/// Index-based reader used by the reference decoders. Running out of input sets `short`
/// (the structure is cut off), it never panics.
#[derive(Clone, Copy)]
pub struct Rd<'a> {
    pub b: &'a [u8],
    pub pos: usize,
    pub short: bool,
}

impl<'a> Rd<'a> {
    #[inline(always)]
    pub fn new(b: &'a [u8]) -> Self {
        Rd { b, pos: 0, short: false }
    }
    #[inline(always)]
    pub fn left(&self) -> usize {
        self.b.len() - self.pos
    }
    #[inline(always)]
    pub fn u8(&mut self) -> u8 {
        if self.short || self.left() < 1 {
            self.short = true;
            return 0;
        }
        let v = self.b[self.pos];
        self.pos += 1;
        v
    }
    #[inline(always)]
    pub fn u16(&mut self) -> u16 {
        if self.short || self.left() < 2 {
            self.short = true;
            return 0;
        }
        let v = be16(self.b, self.pos);
        self.pos += 2;
        v
    }
    #[inline(always)]
    pub fn u24(&mut self) -> u32 {
        if self.short || self.left() < 3 {
            self.short = true;
            return 0;
        }
        let v = be24(self.b, self.pos);
        self.pos += 3;
        v
    }
    #[inline(always)]
    pub fn u32(&mut self) -> u32 {
        if self.short || self.left() < 4 {
            self.short = true;
            return 0;
        }
        let v = be32(self.b, self.pos);
        self.pos += 4;
        v
    }
    #[inline(always)]
    pub fn u64(&mut self) -> u64 {
        if self.short || self.left() < 8 {
            self.short = true;
            return 0;
        }
        let v = ((be32(self.b, self.pos) as u64) << 32) | be32(self.b, self.pos + 4) as u64;
        self.pos += 8;
        v
    }
    /// `n` raw bytes: returns (offset, len).
    #[inline(always)]
    pub fn take(&mut self, n: usize) -> (usize, usize) {
        if self.short || self.left() < n {
            self.short = true;
            return (0, 0);
        }
        let o = self.pos;
        self.pos += n;
        (o, n)
    }
    #[inline(always)]
    pub fn lp8(&mut self) -> (usize, usize) {
        let n = self.u8() as usize;
        self.take(n)
    }
    #[inline(always)]
    pub fn lp16(&mut self) -> (usize, usize) {
        let n = self.u16() as usize;
        self.take(n)
    }
    #[inline(always)]
    pub fn lp24(&mut self) -> (usize, usize) {
        let n = self.u24() as usize;
        self.take(n)
    }
}

/// A (offset,len) span of the input matches a returned slice by pointer identity.
#[inline(always)]
pub fn span_is(b: &[u8], s: &[u8], sp: (usize, usize)) -> bool {
    is_sub(b, s, sp.0, sp.1)
}

// ------------------------------------------------------------------------------------------------
// Three-valued verdicts (DESIGN.md section 3.2)

#[derive(Clone, Copy, PartialEq, Eq, Debug)]
pub enum V {
    /// the bytes are the RFC encoding of a value: the parser must return exactly that value
    Accept,
    /// structurally invalid per the property's list: the parser must not return a value
    Reject,
    /// the property is silent here: only safety/locality are asserted
    DontCare,
}

pub type Span = (usize, usize);

/// ClientHello (TLS, and DTLS with cookie) per RFC 5246 7.4.1.2 / RFC 6347 4.2.1.
pub struct ChRef {
    pub v: V,
    pub version: u16,
    pub random: Span,
    pub sid: Option<Span>,
    pub cookie: Span,
    pub ciphers: Span, // raw bytes of the cipher list (2 per suite)
    pub comp: Span,
    pub ext: Option<Span>,
    pub end: usize, // offset after the last decoded field
}

pub fn ref_client_hello(b: &[u8], dtls: bool) -> ChRef {
    let z = (0, 0);
    let mut c = ChRef { v: V::Reject, version: 0, random: z, sid: None, cookie: z, ciphers: z, comp: z, ext: None, end: 0 };
    let mut rd = Rd::new(b);
    c.version = rd.u16();
    c.random = rd.take(32);
    let sidlen = rd.u8() as usize;
    if rd.short || sidlen > 32 {
        return c;
    }
    if sidlen > 0 {
        c.sid = Some(rd.take(sidlen));
    }
    if dtls {
        c.cookie = rd.lp8();
    }
    let cl = rd.u16() as usize;
    if rd.short || cl % 2 == 1 || cl > rd.left() {
        return c;
    }
    c.ciphers = rd.take(cl);
    let col = rd.u8() as usize;
    if rd.short || col > rd.left() {
        return c;
    }
    c.comp = rd.take(col);
    c.end = rd.pos;
    // optional extension block
    if rd.left() == 0 {
        c.v = V::Accept;
        return c;
    }
    if rd.left() >= 2 {
        let el = be16(b, rd.pos) as usize;
        if el <= rd.left() - 2 {
            c.ext = Some((rd.pos + 2, el));
            c.end = rd.pos + 2 + el;
            // bytes after the extension block inside the body: property is silent
            c.v = if c.end == b.len() { V::Accept } else { V::DontCare };
            return c;
        }
    }
    // extension-block length overruns the body / single trailing byte: lenient, property is silent
    c.v = V::DontCare;
    c
}

/// ServerHello, TLS <= 1.2 form (RFC 5246 7.4.1.3), `has_ext` false for SSLv3.
pub struct ShRef {
    pub v: V,
    pub version: u16,
    pub random: Span,
    pub sid: Option<Span>,
    pub cipher: u16,
    pub comp: u8,
    pub ext: Option<Span>,
    pub end: usize,
}

pub fn ref_server_hello12(b: &[u8], has_ext: bool) -> ShRef {
    let z = (0, 0);
    let mut c = ShRef { v: V::Reject, version: 0, random: z, sid: None, cipher: 0, comp: 0, ext: None, end: 0 };
    let mut rd = Rd::new(b);
    c.version = rd.u16();
    c.random = rd.take(32);
    let sidlen = rd.u8() as usize;
    if rd.short || sidlen > 32 {
        return c;
    }
    if sidlen > 0 {
        c.sid = Some(rd.take(sidlen));
    }
    c.cipher = rd.u16();
    c.comp = rd.u8();
    if rd.short {
        return c;
    }
    c.end = rd.pos;
    if rd.left() == 0 {
        c.v = V::Accept;
        return c;
    }
    if has_ext && rd.left() >= 2 {
        let el = be16(b, rd.pos) as usize;
        if el <= rd.left() - 2 {
            c.ext = Some((rd.pos + 2, el));
            c.end = rd.pos + 2 + el;
            c.v = if c.end == b.len() { V::Accept } else { V::DontCare };
            return c;
        }
    }
    c.v = V::DontCare;
    c
}

/// Optional trailing u16-length-prefixed block (extensions of draft-18 ServerHello / HelloRetryRequest).
pub fn ref_opt_ext(b: &[u8], pos: usize) -> (V, Option<Span>, usize) {
    let left = b.len() - pos;
    if left == 0 {
        return (V::Accept, None, pos);
    }
    if left >= 2 {
        let el = be16(b, pos) as usize;
        if el <= left - 2 {
            let end = pos + 2 + el;
            return (if end == b.len() { V::Accept } else { V::DontCare }, Some((pos + 2, el)), end);
        }
    }
    (V::DontCare, None, pos)
}
