//! Reference decoders (oracles). Index-based transcriptions of the wire formats named in the
//! properties; no nom, no allocation.
use crate::util::*;

pub const MAX_RECORD_LEN: usize = (1 << 14) + 256;

/// Verdict of the record framing oracle (C02 / C10).
#[derive(Clone, Copy, PartialEq, Eq, Debug)]
pub enum Frame {
    /// fewer than `hdr` bytes: Incomplete, size unspecified
    ShortHeader,
    /// declared length above the cap
    TooLarge,
    /// header complete, `missing` bytes missing
    Short { missing: usize },
    /// complete record: payload is b[hdr..hdr+len]
    Ok { len: usize },
}

/// `hdr` = 5 (TLS) or 13 (DTLS); the length field is the last two header bytes.
#[inline(always)]
pub fn ref_frame(b: &[u8], hdr: usize) -> Frame {
    if b.len() < hdr {
        return Frame::ShortHeader;
    }
    let l = be16(b, hdr - 2) as usize;
    if l > MAX_RECORD_LEN {
        return Frame::TooLarge;
    }
    if b.len() < hdr + l {
        return Frame::Short { missing: hdr + l - b.len() };
    }
    Frame::Ok { len: l }
}
