//! C07 — record defragmenter equals accumulate-then-parse, with its safety limits.
use crate::oracle::*;
use crate::util::*;
use crate::{vassert, vcover};
use alloc::vec;
use alloc::vec::Vec;
use core::mem::ManuallyDrop;
use tls_parser as tp;
use tp::nom::error::{Error, ErrorKind};
use tp::nom::{Err, IResult, Needed};
use tp::{TlsMessage, TlsRawRecord, TlsRecordHeader, TlsRecordType, TlsRecordsParser, TlsVersion};

// ------------------------------------------------------------------------------------------------
// Model of "the one-shot record-payload parser" (the property is parametric in it). A message is
// `NEED` bytes long (a per-harness constant); bit 7 of its first byte marks it malformed. All four outcome classes arise.

#[derive(Clone, Copy, PartialEq, Eq)]
enum MOut {
    Ok { used: usize },
    CutShort, // Error(Complete): first message not complete yet
    Malformed, // Error(Tag)
}

/// Message length of the model payload parser; a constant of each harness instance (keeps the
/// control flow of the defragmenter concrete, which is what makes the lock-step affordable).
static mut NEED: usize = 1;

fn model_outcome(i: &[u8]) -> MOut {
    if i.len() == 0 {
        return MOut::CutShort;
    }
    let need = unsafe { NEED };
    if i.len() < need {
        return MOut::CutShort;
    }
    if i[0] & 0x80 != 0 {
        return MOut::Malformed;
    }
    MOut::Ok { used: need }
}

fn model_rwh<'i>(i: &'i [u8], hdr: &TlsRecordHeader) -> IResult<&'i [u8], Vec<TlsMessage<'i>>> {
    // the one-shot parser is always handed a header whose length is the payload length (that is what
    // parse_tls_plaintext does); a defragmenter that passes anything else is not "parsing the concatenation"
    if hdr.len as usize != i.len() {
        return Err(Err::Error(Error::new(i, ErrorKind::Verify)));
    }
    // no heap allocation: the message is identified by the remainder (= input minus the bytes it used)
    match model_outcome(i) {
        MOut::CutShort => Err(Err::Error(Error::new(i, ErrorKind::Complete))),
        MOut::Malformed => Err(Err::Error(Error::new(i, ErrorKind::Tag))),
        MOut::Ok { used } => Ok((&i[used..], Vec::new())),
    }
}

// ------------------------------------------------------------------------------------------------
// Reference defragmenter, written from the property text.

const ACC: usize = 8;

struct RefDefrag {
    cur: Option<u8>,
    acc: [u8; ACC],
    len: usize,
}

#[derive(Clone, Copy, PartialEq, Eq)]
enum Expect {
    /// Ok: message = `used` bytes at offset 0 of `src`, remainder = the rest of `src`
    OkFromRecord { used: usize },
    OkFromBuffer { used: usize, total: usize },
    Incomplete,
    ErrTag,       // foreign content type while defragmenting
    NonEmpty,     // parse_record_nocopy while defragmenting
    ErrMalformed, // the payload parser's own (non-"cut short") error
}

impl RefDefrag {
    fn new() -> Self {
        RefDefrag { cur: None, acc: [0; ACC], len: 0 }
    }
    fn nocopy(&self, data: &[u8]) -> Expect {
        if self.cur.is_some() {
            return Expect::NonEmpty;
        }
        match model_outcome(data) {
            MOut::Ok { used } => Expect::OkFromRecord { used },
            MOut::CutShort => Expect::Incomplete,
            MOut::Malformed => Expect::ErrMalformed,
        }
    }
    fn record(&mut self, ty: u8, data: &[u8]) -> Expect {
        match self.cur {
            None => {
                if ty == 0x14 || ty == 0x15 {
                    return self.nocopy(data); // ChangeCipherSpec and Alert are never buffered
                }
                match model_outcome(data) {
                    MOut::Ok { used } => Expect::OkFromRecord { used },
                    MOut::Malformed => Expect::ErrMalformed,
                    MOut::CutShort => {
                        self.cur = Some(ty);
                        self.len = 0;
                        self.append(data);
                        Expect::Incomplete
                    }
                }
            }
            Some(t) => {
                if t != ty {
                    return Expect::ErrTag;
                }
                self.append(data);
                match model_outcome(&self.acc[..self.len]) {
                    MOut::Ok { used } => {
                        self.cur = None;
                        Expect::OkFromBuffer { used, total: self.len }
                    }
                    MOut::CutShort => Expect::Incomplete,
                    MOut::Malformed => Expect::ErrMalformed,
                }
            }
        }
    }
    fn append(&mut self, data: &[u8]) {
        let mut k = 0;
        while k < data.len() {
            self.acc[self.len + k] = data[k];
            k += 1;
        }
        self.len += data.len();
    }
}

/// Content equality without a loop: equal lengths and equal bytes at an arbitrary (symbolic) index.
fn bytes_eq(a: &[u8], b: &[u8]) -> bool {
    if a.len() != b.len() {
        return false;
    }
    if a.len() == 0 {
        return true;
    }
    let k: usize = kani::any();
    kani::assume(k < a.len());
    a[k] == b[k]
}

/// Compare one call's result with the reference expectation. `data` = the caller's record bytes,
/// `buf` = the parser's buffer after the call (hook), `acc` = the reference accumulator.
fn check_result(r: &IResult<&[u8], Vec<TlsMessage>>, e: Expect, data: &[u8], acc: &[u8]) {
    match e {
        Expect::OkFromRecord { used } => {
            vassert!(r.is_ok(), "C07.complete_record_parses_on_its_own");
            if let Ok((rem, _)) = r {
                vassert!(is_sub(data, rem, used, data.len() - used), "C07.own.result_aliases_callers_record_not_a_copy");
                vcover!(true, "C07.cover.record_parsed_on_its_own");
            }
        }
        Expect::OkFromBuffer { .. } => check_result_nobuf(r, e, data, acc),
        Expect::Incomplete => {
            vassert!(class(r) == Class::Incomplete, "C07.fragment_answers_incomplete");
        }
        Expect::ErrTag => {
            vassert!(class(r) == Class::Error && err_kind(r) == Some(ErrorKind::Tag), "C07.foreign_content_type_refused_with_Tag");
            vcover!(true, "C07.cover.foreign_type_refused");
        }
        Expect::NonEmpty => {
            vassert!(class(r) == Class::Failure && err_kind(r) == Some(ErrorKind::NonEmpty), "C07.nocopy_while_defragmenting_refused_with_NonEmpty");
            vcover!(true, "C07.cover.nocopy_refused");
        }
        Expect::ErrMalformed => {
            vassert!(r.is_err() && class(r) != Class::Incomplete, "C07.malformed_payload_is_an_error");
        }
    }
}

fn check_state(p: &TlsRecordsParser, m: &RefDefrag) {
    vassert!(p.defrag_in_progress() == m.cur.is_some(), "C07.state.defrag_in_progress");
    vassert!(p.verif_current_type().map(|t| t.0) == m.cur, "C07.state.current_content_type");
    if m.cur.is_some() {
        vassert!(bytes_eq(p.verif_buffer(), &m.acc[..m.len]), "C07.state.buffer_is_concatenation_of_fragments");
    }
}

fn raw<'a>(ty: u8, data: &'a [u8]) -> TlsRawRecord<'a> {
    TlsRawRecord {
        hdr: TlsRecordHeader { record_type: TlsRecordType(ty), version: TlsVersion(0x0303), len: data.len() as u16 },
        data,
    }
}

/// One operation on both the real parser and the reference; returns false when the lock-step must
/// stop (the property does not define the state after a malformed concatenation).
fn step(p: &mut TlsRecordsParser, m: &mut RefDefrag, op: u8, ty: u8, data: &[u8]) -> bool {
    match op {
        0 => {
            let e = m.record(ty, data);
            let mut rem_ptr = 0usize;
            {
                let r = ManuallyDrop::new(p.parse_record(raw(ty, data)));
                if let Ok((rem, _)) = &*r {
                    rem_ptr = rem.as_ptr() as usize;
                }
                check_result_nobuf(&r, e, data, &m.acc[..]);
            }
            if let Expect::OkFromBuffer { total, used } = e {
                // after the borrow ended: the returned remainder lies in the parser's own buffer
                vassert!(p.verif_buffer().len() == total, "C07.defrag.buffer_holds_the_concatenation");
                vassert!(p.verif_buffer().as_ptr() as usize + used == rem_ptr, "C07.defrag.result_aliases_parser_buffer");
            }
            if e == Expect::ErrMalformed && m.cur.is_some() {
                return false;
            }
        }
        1 => {
            let e = m.nocopy(data);
            let r = ManuallyDrop::new(p.parse_record_nocopy(raw(ty, data)));
            check_result_nobuf(&r, e, data, &m.acc[..]);
        }
        _ => {
            p.reset();
            *m = RefDefrag::new();
            vcover!(true, "C07.cover.reset");
        }
    }
    check_state(p, m);
    true
}

/// As `check_result`, for results that still borrow the parser (buffer provenance is checked by content
/// and by "not inside the caller's record").
fn check_result_nobuf(r: &IResult<&[u8], Vec<TlsMessage>>, e: Expect, data: &[u8], acc: &[u8]) {
    match e {
        Expect::OkFromBuffer { used, total } => {
            vassert!(r.is_ok(), "C07.last_fragment_returns_what_the_unsplit_payload_parses_to");
            if let Ok((rem, _)) = r {
                vassert!(rem.len() == total - used, "C07.defrag.consumed_length_equals_unsplit_parse");
                vassert!(bytes_eq(rem, &acc[used..total]), "C07.defrag.remainder_equals_unsplit_parse");
                vassert!(data.len() == 0 || rem.len() == 0 || !inside(data, rem, data.len()), "C07.defrag.result_not_in_callers_last_fragment");
                vcover!(total > used, "C07.cover.defragmented_with_remainder");
                vcover!(total == used, "C07.cover.defragmented_exact");
            }
        }
        _ => check_result(r, e, data, acc),
    }
}

/// Lock-step runs: message length NEED and fragment lengths concrete per instance (rule R5); bytes,
/// content types and operation kinds (0 = parse_record, 1 = parse_record_nocopy, 2 = reset) symbolic.
macro_rules! lockstep2 {
    ($name:ident, $need:expr, $a:expr, $b:expr) => {
        #[kani::proof]
        #[kani::unwind(8)]
        #[kani::stub(tp::parse_tls_record_with_header, model_rwh)]
        fn $name() {
            unsafe { NEED = $need; }
            let pool: [u8; $a + $b] = kani::any();
            let (d1, d2) = (&pool[..$a], &pool[$a..]);
            let (t1, t2): (u8, u8) = (kani::any(), kani::any());
            let (op1, op2): (u8, u8) = (kani::any(), kani::any());
            kani::assume(op1 <= 2 && op2 <= 2);
            let mut p = ManuallyDrop::new(TlsRecordsParser::default());
            let mut m = RefDefrag::new();
            check_state(&p, &m);
            if step(&mut p, &mut m, op1, t1, d1) {
                step(&mut p, &mut m, op2, t2, d2);
            }
            vcover!(op1 == 0 && op2 == 0 && t1 == t2 && t1 == 0x16, "C07.cover.two_parse_record_calls_same_type");
            vcover!(m.cur.is_some(), "C07.cover.sequence_ends_inside_defragmentation");
            vcover!(m.cur.is_none(), "C07.cover.sequence_ends_outside_defragmentation");
        }
    };
}
lockstep2!(c07_lockstep_2_n2_1_1, 2, 1, 1);
lockstep2!(c07_lockstep_2_n3_1_2, 3, 1, 2);
lockstep2!(c07_lockstep_2_n3_2_2, 3, 2, 2);
lockstep2!(c07_lockstep_2_n1_0_1, 1, 0, 1);
lockstep2!(c07_lockstep_2_n4_1_1, 4, 1, 1);
lockstep2!(c07_lockstep_2_n2_2_0, 2, 2, 0);

macro_rules! lockstep3 {
    ($name:ident, $need:expr, $a:expr, $b:expr, $c:expr) => {
        #[kani::proof]
        #[kani::unwind(8)]
        #[kani::stub(tp::parse_tls_record_with_header, model_rwh)]
        fn $name() {
            unsafe { NEED = $need; }
            let pool: [u8; $a + $b + $c] = kani::any();
            let (d1, d2, d3) = (&pool[..$a], &pool[$a..$a + $b], &pool[$a + $b..]);
            let (t1, t2, t3): (u8, u8, u8) = (kani::any(), kani::any(), kani::any());
            let (op1, op2, op3): (u8, u8, u8) = (kani::any(), kani::any(), kani::any());
            kani::assume(op1 <= 2 && op2 <= 2 && op3 <= 2);
            let mut p = ManuallyDrop::new(TlsRecordsParser::default());
            let mut m = RefDefrag::new();
            if step(&mut p, &mut m, op1, t1, d1) {
                if step(&mut p, &mut m, op2, t2, d2) {
                    step(&mut p, &mut m, op3, t3, d3);
                }
            }
            vcover!(op1 == 0 && op2 == 0 && op3 == 0 && t1 == t2 && t2 == t3 && t1 == 0x17, "C07.cover.three_parse_record_calls_same_type");
            vcover!(op2 == 2, "C07.cover.reset_in_the_middle");
            vcover!(op2 == 1, "C07.cover.nocopy_in_the_middle");
        }
    };
}
lockstep3!(c07_lockstep_3_n3_1_1_1, 3, 1, 1, 1);
lockstep3!(c07_lockstep_3_n4_2_1_1, 4, 2, 1, 1);
lockstep3!(c07_lockstep_3_n3_0_2_1, 3, 0, 2, 1);
lockstep3!(c07_lockstep_3_n4_1_0_3, 4, 1, 0, 3);
lockstep3!(c07_lockstep_3_n2_1_1_1, 2, 1, 1, 1);

// ------------------------------------------------------------------------------------------------
// End to end with the real heartbeat payload parser (no type dispatch inside): a heartbeat message
// split at a symbolic point across two records equals the one-shot parse of the unsplit payload.

/// Cut point `C` and heartbeat payload_length `PL` concrete per instance; type byte, payload and padding symbolic.
macro_rules! heartbeat_e2e {
    ($name:ident, $c:expr, $pl:expr) => {
        #[kani::proof]
        #[kani::unwind(4)]
        fn $name() {
            const C: usize = $c;
            const PL: usize = $pl;
            let mut pool: [u8; 7] = kani::any();
            pool[1] = 0;
            pool[2] = PL as u8;
            let (d1, d2) = (&pool[..C], &pool[C..]);
            let mut p = ManuallyDrop::new(TlsRecordsParser::default());
            {
                let r1 = ManuallyDrop::new(p.parse_record(raw(0x18, d1)));
                vassert!(class(&r1) == Class::Incomplete, "C07.hb.first_fragment_answers_incomplete");
            }
            vassert!(p.defrag_in_progress(), "C07.hb.defrag_in_progress_after_first_fragment");
            vassert!(bytes_eq(p.verif_buffer(), d1), "C07.hb.buffer_holds_first_fragment");
            let mut payload_ptr = 0usize;
            {
                let r2 = ManuallyDrop::new(p.parse_record(raw(0x18, d2)));
                vassert!(r2.is_ok(), "C07.hb.last_fragment_completes");
                if let Ok((rem2, v2)) = &*r2 {
                    vassert!(v2.len() == 1, "C07.hb.one_message");
                    if let Some(TlsMessage::Heartbeat(a)) = v2.first() {
                        // what the one-shot parser returns on the unsplit payload (C03 heartbeat oracle)
                        vassert!(a.heartbeat_type.0 == pool[0] && a.payload_len as usize == PL && bytes_eq(a.payload, &pool[3..3 + PL]),
                                 "C07.hb.message_equals_unsplit_parse");
                        payload_ptr = a.payload.as_ptr() as usize;
                    } else {
                        vassert!(false, "C07.hb.kind");
                    }
                    vassert!(bytes_eq(rem2, &pool[3 + PL..]), "C07.hb.remainder_equals_unsplit_parse");
                    vcover!(rem2.len() > 0, "C07.cover.hb_padding");
                }
            }
            vassert!(!p.defrag_in_progress(), "C07.hb.defragmentation_ended");
            vassert!(p.verif_buffer().as_ptr() as usize + 3 == payload_ptr, "C07.hb.payload_aliases_parser_buffer_not_callers_records");
            vcover!(true, "C07.cover.hb_done");
        }
    };
}
heartbeat_e2e!(c07_heartbeat_e2e_cut0_pl1, 0, 1);
heartbeat_e2e!(c07_heartbeat_e2e_cut0_pl4, 0, 4);

fn a_len(v: &Vec<TlsMessage>) -> usize {
    match v.first() {
        Some(TlsMessage::Heartbeat(h)) => h.payload.len(),
        _ => 0,
    }
}

/// Inductive step (one call from an arbitrary valid state, hook `verif_from_parts`), in lock-step with
/// the reference. Valid states: idle with arbitrary left-over buffer bytes (the buffer keeps the
/// last payload after completion), or in progress with a non-CCS/alert type and buffered bytes that
/// are still cut short for the payload parser. Base case (fresh parser) + this step = every history.
macro_rules! any_state_step {
    ($name:ident, $dl:expr) => {
        #[kani::proof]
        #[kani::unwind(8)]
        #[kani::stub(tp::parse_tls_record_with_header, model_rwh)]
        fn $name() {
            let need: usize = kani::any();
            kani::assume(need >= 1 && need <= 4);
            unsafe { NEED = need; }
            let pre: [u8; 3] = kani::any();
            let pl: usize = kani::any();
            kani::assume(pl <= 3);
            let in_progress: bool = kani::any();
            let cur: u8 = kani::any();
            let mut m = RefDefrag::new();
            if in_progress {
                kani::assume(cur != 0x14 && cur != 0x15);
                kani::assume(model_outcome(&pre[..pl]) == MOut::CutShort);
                m.cur = Some(cur);
                m.append(&pre[..pl]);
            }
            let mut b = Vec::with_capacity(8);
            b.extend_from_slice(&pre[..pl]);
            let mut p = ManuallyDrop::new(TlsRecordsParser::verif_from_parts(b, if in_progress { Some(TlsRecordType(cur)) } else { None }));
            let data: [u8; $dl] = kani::any();
            let ty: u8 = kani::any();
            let op: u8 = kani::any();
            kani::assume(op <= 2);
            step(&mut p, &mut m, op, ty, &data[..]);
            if in_progress && (op == 1 || (op == 0 && ty != cur)) {
                vassert!(p.verif_current_type().map(|t| t.0) == Some(cur) && bytes_eq(p.verif_buffer(), &pre[..pl]), "C07.step.refusal_leaves_state_unchanged");
                vcover!(op == 1, "C07.cover.step_nocopy_refused");
                vcover!(op == 0, "C07.cover.step_foreign_type_refused");
            }
            vcover!(!in_progress && op == 0 && p.defrag_in_progress() && pl > 0, "C07.cover.step_new_first_fragment_replaces_leftover_bytes");
            vcover!(in_progress && op == 0 && !p.defrag_in_progress(), "C07.cover.step_completes");
        }
    };
}
any_state_step!(c07_any_state_step_d0, 0);
any_state_step!(c07_any_state_step_d1, 1);
any_state_step!(c07_any_state_step_d2, 2);


/// The u16 boundary of the reassembly buffer: an in-progress buffer of 65 535 bytes (contents
/// unconstrained) plus a 1-byte fragment. The pseudo-header length wraps (documented `as u16` cast);
/// the call must return Incomplete (the model message is longer), append the byte and stay in progress.
#[kani::proof]
#[kani::unwind(4)]
#[kani::stub(tp::parse_tls_record_with_header, model_rwh_nolen)]
fn c07_step_at_64k_boundary() {
    unsafe { NEED = 70_000; }
    let cur: u8 = kani::any();
    kani::assume(cur != 0x14 && cur != 0x15);
    let mut big: Vec<u8> = Vec::with_capacity(65_600);
    unsafe { big.set_len(65_535); }
    let mut p = ManuallyDrop::new(TlsRecordsParser::verif_from_parts(big, Some(TlsRecordType(cur))));
    let data: [u8; 1] = kani::any();
    {
        let r = ManuallyDrop::new(p.parse_record(raw(cur, &data[..])));
        vassert!(class(&r) == Class::Incomplete, "C07.step64k.fragment_answers_incomplete");
    }
    vassert!(p.verif_buffer().len() == 65_536 && p.defrag_in_progress(), "C07.step64k.fragment_appended_and_still_in_progress");
    vcover!(true, "C07.cover.step64k");
}

/// model callee without the header-length requirement (the pseudo-header length wraps at 64 KiB by design)
fn model_rwh_nolen<'i>(i: &'i [u8], _hdr: &TlsRecordHeader) -> IResult<&'i [u8], Vec<TlsMessage<'i>>> {
    match model_outcome(i) {
        MOut::CutShort => Err(Err::Error(Error::new(i, ErrorKind::Complete))),
        MOut::Malformed => Err(Err::Error(Error::new(i, ErrorKind::Tag))),
        MOut::Ok { used } => Ok((&i[used..], Vec::new())),
    }
}
