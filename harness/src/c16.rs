//! C16 — multi-record parsers equal repeated single-record parsing.
use crate::oracle::*;
use crate::util::*;
use crate::{vassert, vcover};
use alloc::vec::Vec;
use core::mem::ManuallyDrop;
use tls_parser as tp;
use tp::nom::combinator::complete;
use tp::nom::error::{Error, ErrorKind};
use tp::nom::multi::{many0, many1};
use tp::nom::{Err, IResult, Needed};
use tp::TlsMessageHandshake as HS;

// ------------------------------------------------------------------------------------------------
// Lemma about nom's many1(complete(p)) / many0(complete(p)) on a model parser with a Copy output:
// element = [L, L bytes], L = b0 & 3; b0 & 0x80 => Error; short => Incomplete.

fn model_p(i: &[u8]) -> IResult<&[u8], (u8, usize)> {
    if i.len() == 0 {
        return Err(Err::Incomplete(Needed::new(1)));
    }
    if i[0] & 0x80 != 0 {
        return Err(Err::Error(Error::new(i, ErrorKind::Tag)));
    }
    if i[0] & 0x40 != 0 {
        return Err(Err::Failure(Error::new(i, ErrorKind::Tag)));
    }
    let l = (i[0] & 3) as usize;
    if i.len() < 1 + l {
        return Err(Err::Incomplete(Needed::new(1 + l - i.len())));
    }
    Ok((&i[1 + l..], (i[0], l)))
}

fn ref_prefix(b: &[u8]) -> (usize, usize, bool) {
    // (number of elements, offset of the first element that fails or is incomplete, that element is a Failure)
    let mut pos = 0;
    let mut k = 0;
    while pos < b.len() {
        if b[pos] & 0x80 != 0 {
            break;
        }
        if b[pos] & 0x40 != 0 {
            return (k, pos, true);
        }
        let l = (b[pos] & 3) as usize;
        if b.len() - pos < 1 + l {
            break;
        }
        pos += 1 + l;
        k += 1;
    }
    (k, pos, false)
}

#[kani::proof]
#[kani::unwind(10)]
fn c16_lemma_many1_complete() {
    let buf: [u8; 8] = kani::any();
    let n: usize = kani::any();
    kani::assume(n <= 8);
    let b = &buf[..n];
    let r = ManuallyDrop::new(many1(complete(model_p))(b));
    let (k, pos, failure) = ref_prefix(b);
    if failure {
        // nom semantics: a Failure of the element parser aborts the whole repetition, also after successes.
        // Hence the multi-record property needs single-record parsers that never return Failure (checked
        // by the record-framing harnesses that are part of this property's check).
        vassert!(class(&r) == Class::Failure, "C16.lemma.many1.element_failure_aborts_everything");
        vcover!(k >= 1, "C16.lemma.cover.failure_after_successes");
        return;
    }
    if k == 0 {
        vassert!(r.is_err() && class(&r) != Class::Incomplete, "C16.lemma.many1.fails_iff_first_element_does_not_parse");
        vcover!(n == 0, "C16.lemma.cover.empty");
    } else {
        vassert!(r.is_ok(), "C16.lemma.many1.ok_when_first_element_parses");
        if let Ok((rem, v)) = &*r {
            vassert!(v.len() == k, "C16.lemma.many1.exactly_the_elements_that_parse");
            vassert!(is_sub(b, rem, pos, n - pos), "C16.lemma.many1.remainder_at_first_failing_or_incomplete_element");
            let mut p = 0;
            let mut j = 0;
            while j < v.len() {
                vassert!(v[j].0 == b[p] && v[j].1 == (b[p] & 3) as usize, "C16.lemma.many1.outputs_in_order");
                p += 1 + v[j].1;
                j += 1;
            }
            vcover!(k == 3 && pos < n, "C16.lemma.cover.three_then_failure");
            vcover!(k >= 1 && pos < n && b[pos] & 0x80 == 0, "C16.lemma.cover.trailing_incomplete_element");
        }
    }
}

#[kani::proof]
#[kani::unwind(10)]
fn c16_lemma_many0_complete() {
    let buf: [u8; 8] = kani::any();
    let n: usize = kani::any();
    kani::assume(n <= 8);
    let b = &buf[..n];
    let r = ManuallyDrop::new(many0(complete(model_p))(b));
    let (k, pos, failure) = ref_prefix(b);
    if failure {
        vassert!(class(&r) == Class::Failure, "C16.lemma.many0.element_failure_aborts_everything");
        return;
    }
    vassert!(r.is_ok(), "C16.lemma.many0.never_fails_without_element_failure");
    if let Ok((rem, v)) = &*r {
        vassert!(v.len() == k, "C16.lemma.many0.exactly_the_elements_that_parse");
        vassert!(is_sub(b, rem, pos, n - pos), "C16.lemma.many0.remainder_at_first_failing_or_incomplete_element");
        vcover!(k == 0 && n > 0, "C16.lemma.cover.many0_zero_elements");
    }
}

// ------------------------------------------------------------------------------------------------
// tls_parser == parse_tls_plaintext (content dispatcher stubbed: both see the same stub).

fn stub_rwh<'i>(i: &'i [u8], hdr: &tp::TlsRecordHeader) -> IResult<&'i [u8], Vec<tp::TlsMessage<'i>>> {
    if hdr.record_type.0 & 1 == 1 {
        return Err(Err::Error(Error::new(i, ErrorKind::Tag)));
    }
    Ok((i, Vec::new()))
}

#[kani::proof]
#[kani::unwind(4)]
#[kani::stub(tp::parse_tls_record_with_header, stub_rwh)]
#[allow(deprecated)]
fn c16_tls_parser_is_parse_tls_plaintext() {
    let buf: [u8; 10] = kani::any();
    let n: usize = kani::any();
    kani::assume(n <= 10);
    let b = &buf[..n];
    let a = ManuallyDrop::new(tp::tls_parser(b));
    let c = ManuallyDrop::new(tp::parse_tls_plaintext(b));
    vassert!(class(&a) == class(&c), "C16.tls_parser.same_outcome_class_as_parse_tls_plaintext");
    vassert!(needed(&a) == needed(&c) && err_kind(&a) == err_kind(&c), "C16.tls_parser.same_error_detail");
    if let (Ok((r1, p1)), Ok((r2, p2))) = (&*a, &*c) {
        vassert!(r1.as_ptr() == r2.as_ptr() && r1.len() == r2.len(), "C16.tls_parser.same_remainder");
        vassert!(p1.hdr == p2.hdr && p1.msg.len() == p2.msg.len(), "C16.tls_parser.same_record");
        vcover!(true, "C16.tls_parser.cover.ok");
    }
    vcover!(class(&a) == Class::Incomplete, "C16.tls_parser.cover.incomplete");
    vcover!(class(&a) == Class::Error, "C16.tls_parser.cover.error");
}

// ------------------------------------------------------------------------------------------------
// End to end on the real instantiation: a ChangeCipherSpec record followed by an alert record, symbolic
// payload bytes and symbolic truncation. The handshake body parsers are unreachable here but CBMC
// executes the handshake arm from the second many1 iteration on, so they are stubbed out.

fn st1(i: &[u8]) -> IResult<&[u8], HS> { Err(Err::Error(Error::new(i, ErrorKind::Tag))) }
fn st2(i: &[u8], _l: usize) -> IResult<&[u8], HS> { Err(Err::Error(Error::new(i, ErrorKind::Tag))) }

#[kani::proof]
#[kani::unwind(6)]
#[kani::stub(tp::parse_tls_handshake_msg_hello_request, st1)]
#[kani::stub(tp::parse_tls_handshake_msg_client_hello, st1)]
#[kani::stub(tp::parse_tls_handshake_msg_server_hello, st1)]
#[kani::stub(tp::parse_tls_handshake_msg_newsessionticket, st2)]
#[kani::stub(tp::parse_tls_handshake_msg_hello_retry_request, st1)]
#[kani::stub(tp::parse_tls_handshake_msg_certificate, st1)]
#[kani::stub(tp::parse_tls_handshake_msg_serverkeyexchange, st2)]
#[kani::stub(tp::parse_tls_handshake_msg_certificaterequest, st1)]
#[kani::stub(tp::parse_tls_handshake_msg_serverdone, st2)]
#[kani::stub(tp::parse_tls_handshake_msg_certificateverify, st2)]
#[kani::stub(tp::parse_tls_handshake_msg_clientkeyexchange, st2)]
#[kani::stub(tp::parse_tls_handshake_msg_finished, st2)]
#[kani::stub(tp::parse_tls_handshake_msg_certificatestatus, st1)]
#[kani::stub(tp::parse_tls_handshake_msg_key_update, st1)]
#[kani::stub(tp::parse_tls_handshake_msg_next_protocol, st1)]
fn c16_tls_parser_many_two_records() {
    let p: u8 = kani::any();
    let a: [u8; 2] = kani::any();
    let v: [u8; 2] = kani::any();
    let l2: [u8; 2] = kani::any();
    let buf = [0x14, v[0], v[1], 0, 1, p, 0x15, 3, 3, l2[0], l2[1], a[0], a[1]];
    let n: usize = kani::any();
    kani::assume(n <= 13);
    let b = &buf[..n];
    let r = ManuallyDrop::new(tp::tls_parser_many(b));
    // what repeated single-record parsing gives (single-record behaviour: C02/C03); the second record's
    // declared length is symbolic: 2 = complete alert, 0/1 = no alert (rejected), > 2 = incomplete, > 16640 = TooLarge
    let first_ok = n >= 6 && p == 1;
    let second_ok = first_ok && n == 13 && be16(&l2, 0) == 2;
    kani::assume(be16(&l2, 0) != 1 || n < 12);  // length 1 with 12+ bytes: alert cut short inside a complete record (C03)
    if !first_ok {
        vassert!(r.is_err(), "C16.many.fails_iff_first_record_does_not_parse");
        vassert!(class(&r) != Class::Incomplete, "C16.many.first_record_failure_is_an_error");
        vcover!(n >= 6, "C16.many.cover.first_record_malformed");
        vcover!(n < 6, "C16.many.cover.first_record_truncated");
    } else {
        vassert!(r.is_ok(), "C16.many.ok_when_first_record_parses");
        if let Ok((rem, recs)) = &*r {
            let k = if second_ok { 2 } else { 1 };
            let pos = if second_ok { 13 } else { 6 };
            vassert!(recs.len() == k, "C16.many.exactly_the_records_that_parse");
            vassert!(is_sub(b, rem, pos, n - pos), "C16.many.remainder_starts_at_first_failing_or_incomplete_record");
            vassert!(recs[0].hdr.record_type.0 == 0x14 && recs[0].hdr.version.0 == be16(&v, 0) && recs[0].msg.len() == 1, "C16.many.first_record_exact");
            if second_ok {
                vassert!(recs[1].hdr.record_type.0 == 0x15 && recs[1].msg.len() == 1, "C16.many.second_record_exact");
                vcover!(true, "C16.many.cover.two_records");
            } else {
                vcover!(n > 6, "C16.many.cover.second_record_incomplete");
                vcover!(n == 13 && be16(&l2, 0) > 16_640, "C16.many.cover.second_record_too_large");
            }
        }
    }
}

// DTLS: two records (CCS, alert) in one datagram, symbolic truncation.
fn dst1(i: &[u8]) -> IResult<&[u8], tp::DTLSMessageHandshakeBody> { Err(Err::Error(Error::new(i, ErrorKind::Tag))) }
fn dst2(i: &[u8], _l: usize) -> IResult<&[u8], tp::DTLSMessageHandshakeBody> { Err(Err::Error(Error::new(i, ErrorKind::Tag))) }

#[kani::proof]
#[kani::unwind(10)]
#[kani::stub(tp::dtls::parse_dtls_client_hello, dst1)]
#[kani::stub(tp::dtls::parse_dtls_hello_verify_request, dst1)]
#[kani::stub(tp::dtls::parse_dtls_handshake_msg_server_hello_tlsv12, dst1)]
#[kani::stub(tp::dtls::parse_dtls_handshake_msg_serverdone, dst2)]
#[kani::stub(tp::dtls::parse_dtls_handshake_msg_clientkeyexchange, dst2)]
#[kani::stub(tp::dtls::parse_dtls_handshake_msg_certificate, dst1)]
fn c16_dtls_records_two_records() {
    let p: u8 = kani::any();
    let a: [u8; 2] = kani::any();
    let s: u8 = kani::any();
    let l2: [u8; 2] = kani::any();
    let buf = [0x14, 0xfe, 0xfd, 0, 1, 0, 0, 0, 0, 0, s, 0, 1, p,
               0x15, 0xfe, 0xfd, 0, 1, 0, 0, 0, 0, 0, 9, l2[0], l2[1], a[0], a[1]];
    let n: usize = kani::any();
    kani::assume(n <= 29);
    let b = &buf[..n];
    let r = ManuallyDrop::new(tp::parse_dtls_plaintext_records(b));
    let first_ok = n >= 14 && p == 1;
    let second_ok = first_ok && n == 29 && be16(&l2, 0) == 2;
    kani::assume(be16(&l2, 0) != 1 || n < 28);
    if !first_ok {
        vassert!(r.is_err() && class(&r) != Class::Incomplete, "C16.dtls.fails_iff_first_record_does_not_parse");
        vcover!(n >= 14, "C16.dtls.cover.first_record_malformed");
    } else {
        vassert!(r.is_ok(), "C16.dtls.ok_when_first_record_parses");
        if let Ok((rem, recs)) = &*r {
            let k = if second_ok { 2 } else { 1 };
            let pos = if second_ok { 29 } else { 14 };
            vassert!(recs.len() == k, "C16.dtls.exactly_the_records_that_parse");
            vassert!(is_sub(b, rem, pos, n - pos), "C16.dtls.remainder_starts_at_first_failing_or_incomplete_record");
            vassert!(recs[0].header.sequence_number == s as u64 && recs[0].messages.len() == 1, "C16.dtls.first_record_exact");
            vcover!(second_ok, "C16.dtls.cover.two_records");
            vcover!(!second_ok && n > 14, "C16.dtls.cover.second_record_incomplete");
            vcover!(n == 29 && be16(&l2, 0) > 16_640, "C16.dtls.cover.second_record_too_large");
        }
    }
}

// ------------------------------------------------------------------------------------------------
// Cheap end-to-end instances on the real multi-record parsers (inputs concrete except a few bytes, so
// symbolic execution folds almost everything): empty input and a garbage first record. (An instance with one
// record of symbolic declared length on a 16 700-byte buffer did not finish in 20 minutes.)

#[kani::proof]
#[kani::unwind(10)]
fn c16_many_empty_and_garbage_first_record() {
    let empty: [u8; 0] = [];
    let r = ManuallyDrop::new(tp::tls_parser_many(&empty[..]));
    vassert!(r.is_err(), "C16.many.fails_iff_first_record_does_not_parse");
    let d = ManuallyDrop::new(tp::parse_dtls_plaintext_records(&empty[..]));
    vassert!(d.is_err(), "C16.dtls.fails_iff_first_record_does_not_parse");
    // a complete record of an unknown content type (0): the single-record parsers reject it
    let x: u8 = kani::any();
    let g = [0u8, 3, 3, 0, 1, x];
    let r = ManuallyDrop::new(tp::tls_parser_many(&g[..]));
    vassert!(r.is_err(), "C16.many.fails_iff_first_record_does_not_parse");
    let gd = [0u8, 0xfe, 0xfd, 0, 0, 0, 0, 0, 0, 0, 0, 0, 1, x];
    let d = ManuallyDrop::new(tp::parse_dtls_plaintext_records(&gd[..]));
    vassert!(d.is_err(), "C16.dtls.fails_iff_first_record_does_not_parse");
    vcover!(true, "C16.cover.empty_and_garbage");
}




// ------------------------------------------------------------------------------------------------
// The wrapper itself, on the real instantiation, with the single-record parser replaced by a model
// (2-byte records [type, flag]: flag bit 7 = malformed; a lone trailing byte = incomplete). Whatever the
// wrapper's shape, it must return exactly the records the model accepts from the start, stop at the first
// failing or incomplete one, and fail iff the first does not parse. Tiny bound (5 bytes) because
// `Vec<TlsPlaintext>` is expensive for the solver.
static mut MODEL_CALLS: u32 = 0;

fn model_record(i: &[u8]) -> IResult<&[u8], tp::TlsPlaintext> {
    unsafe {
        MODEL_CALLS += 1;
    }
    if i.len() < 2 {
        return Err(Err::Incomplete(Needed::new(2 - i.len())));
    }
    if i[1] & 0x80 != 0 {
        return Err(Err::Error(Error::new(i, ErrorKind::Tag)));
    }
    Ok((&i[2..], tp::TlsPlaintext {
        hdr: tp::TlsRecordHeader { record_type: tp::TlsRecordType(i[0]), version: tp::TlsVersion(i[1] as u16), len: 0 },
        msg: Vec::new(),
    }))
}

#[kani::proof]
#[kani::unwind(5)]
#[kani::stub(tp::parse_tls_plaintext, model_record)]
fn c16_wrapper_with_model_record_parser() {
    let buf: [u8; 5] = kani::any();
    let n: usize = kani::any();
    kani::assume(n <= 5);
    let b = &buf[..n];
    unsafe {
        MODEL_CALLS = 0;
    }
    let r = ManuallyDrop::new(tp::tls_parser_many(b));
    // a wrapper that does not go through the single-record parser at all (e.g. an inlined copy) is outside what
    // this harness can judge: nothing is asserted then and the missing cover makes the run inconclusive
    if unsafe { MODEL_CALLS } == 0 {
        return;
    }
    let mut pos = 0;
    let mut k = 0;
    while pos + 2 <= n && b[pos + 1] & 0x80 == 0 {
        pos += 2;
        k += 1;
    }
    if k == 0 {
        vassert!(r.is_err(), "C16.many.fails_iff_first_record_does_not_parse");
    } else {
        vassert!(r.is_ok(), "C16.many.ok_when_first_record_parses");
        if let Ok((rem, recs)) = &*r {
            vassert!(recs.len() == k, "C16.many.exactly_the_records_that_parse");
            vassert!(is_sub(b, rem, pos, n - pos), "C16.many.remainder_starts_at_first_failing_or_incomplete_record");
            vassert!(recs[0].hdr.record_type.0 == b[0] && (k < 2 || recs[1].hdr.record_type.0 == b[2]), "C16.many.records_in_wire_order");
            vcover!(k == 2 && pos < n, "C16.many.cover.two_records_then_incomplete");
            vcover!(k == 1 && b[0] == 0x14 && n >= 4, "C16.many.cover.ccs_record_then_more");
        }
    }
}

fn model_dtls_record(i: &[u8]) -> IResult<&[u8], tp::DTLSPlaintext> {
    unsafe {
        MODEL_CALLS += 1;
    }
    if i.len() < 2 {
        return Err(Err::Incomplete(Needed::new(2 - i.len())));
    }
    if i[1] & 0x80 != 0 {
        return Err(Err::Error(Error::new(i, ErrorKind::Tag)));
    }
    Ok((&i[2..], tp::DTLSPlaintext {
        header: tp::DTLSRecordHeader { content_type: tp::TlsRecordType(i[0]), version: tp::TlsVersion(0xfefd), epoch: 0, sequence_number: i[1] as u64, length: 0 },
        messages: Vec::new(),
    }))
}

#[cfg(feature = "thorough")]
#[kani::proof]
#[kani::unwind(5)]
#[kani::stub(tp::parse_dtls_plaintext_record, model_dtls_record)]
fn c16_dtls_wrapper_with_model_record_parser() {
    let buf: [u8; 5] = kani::any();
    let n: usize = kani::any();
    kani::assume(n <= 5);
    let b = &buf[..n];
    unsafe {
        MODEL_CALLS = 0;
    }
    let r = ManuallyDrop::new(tp::parse_dtls_plaintext_records(b));
    if unsafe { MODEL_CALLS } == 0 {
        return;
    }
    let mut pos = 0;
    let mut k = 0;
    while pos + 2 <= n && b[pos + 1] & 0x80 == 0 {
        pos += 2;
        k += 1;
    }
    if k == 0 {
        vassert!(r.is_err(), "C16.dtls.fails_iff_first_record_does_not_parse");
    } else {
        vassert!(r.is_ok(), "C16.dtls.ok_when_first_record_parses");
        if let Ok((rem, recs)) = &*r {
            vassert!(recs.len() == k, "C16.dtls.exactly_the_records_that_parse");
            vassert!(is_sub(b, rem, pos, n - pos), "C16.dtls.remainder_starts_at_first_failing_or_incomplete_record");
            vcover!(k == 2, "C16.dtls.cover.two_model_records");
        }
    }
}
