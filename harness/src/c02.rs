//! C02 — TLS record framing: exact header decode, length cap, streaming contract.
use crate::{vassert, vcover};
use crate::oracle::*;
use crate::util::*;
use core::mem::ManuallyDrop;
use tls_parser as tp;
use tp::nom::error::ErrorKind;
use tp::nom::{Err, IResult, Needed};

/// Compare a raw/encrypted-style result against the framing oracle.
macro_rules! check_frame {
    ($lbl:literal, $b:expr, $r:expr, |$v:ident| ($hdr:expr, $data:expr)) => {{
        let b: &[u8] = $b;
        let r = &$r;
        match ref_frame(b, 5) {
            Frame::ShortHeader => {
                vassert!(class(r) == Class::Incomplete, $lbl, ".short_header.incomplete");
                vcover!(true, $lbl, ".cover.short_header");
            }
            Frame::TooLarge => {
                vassert!(err_kind(r) == Some(ErrorKind::TooLarge) && class(r) == Class::Error,
                        $lbl, ".too_large.rejected");
                vcover!(b.len() == 5, $lbl, ".cover.too_large_nothing_follows");
                vcover!(b.len() > 5, $lbl, ".cover.too_large_something_follows");
            }
            Frame::Short { missing } => {
                vassert!(class(r) == Class::Incomplete, $lbl, ".short.incomplete");
                vassert!(needed(r) == Some(missing), $lbl, ".short.needed_exact");
                vcover!(missing > 1, $lbl, ".cover.short");
            }
            Frame::Ok { len } => {
                vassert!(class(r) == Class::Ok, $lbl, ".ok.accepted");
                if let Ok((rem, $v)) = r {
                    let hdr: &tp::TlsRecordHeader = $hdr;
                    let data: &[u8] = $data;
                    vassert!(hdr.record_type.0 == b[0], $lbl, ".ok.type");
                    vassert!(hdr.version.0 == be16(b, 1), $lbl, ".ok.version");
                    vassert!(hdr.len as usize == len, $lbl, ".ok.len");
                    vassert!(is_sub(b, data, 5, len), $lbl, ".ok.payload_exact");
                    vassert!(is_sub(b, rem, 5 + len, b.len() - 5 - len), $lbl, ".ok.remainder_exact");
                    vcover!(len > 0 && rem.len() > 0, $lbl, ".cover.ok_payload_and_rest");
                    vcover!(len == 0, $lbl, ".cover.ok_empty");
                }
            }
        }
    }};
}

/// parse_tls_raw_record, 13-byte buffer, symbolic length, everything symbolic.
#[kani::proof]
#[kani::unwind(4)]
fn c02_raw_small() {
    let buf: [u8; 13] = kani::any();
    let n: usize = kani::any();
    kani::assume(n <= 13);
    let b = &buf[..n];
    let r = tp::parse_tls_raw_record(b);
    check_frame!("C02.raw", b, r, |v| (&v.hdr, v.data));
}

/// parse_tls_encrypted, same bound.
#[kani::proof]
#[kani::unwind(4)]
fn c02_encrypted_small() {
    let buf: [u8; 13] = kani::any();
    let n: usize = kani::any();
    kani::assume(n <= 13);
    let b = &buf[..n];
    let r = tp::parse_tls_encrypted(b);
    check_frame!("C02.encrypted", b, r, |v| (&v.hdr, v.msg.blob));
}

/// parse_tls_record_header alone.
#[kani::proof]
#[kani::unwind(4)]
fn c02_header() {
    let buf: [u8; 8] = kani::any();
    let n: usize = kani::any();
    kani::assume(n <= 8);
    let b = &buf[..n];
    let r = tp::parse_tls_record_header(b);
    if n < 5 {
        vassert!(class(&r) == Class::Incomplete, "C02.header.short.incomplete");
    } else {
        vassert!(class(&r) == Class::Ok, "C02.header.ok");
        if let Ok((rem, h)) = &r {
            vassert!(h.record_type.0 == b[0], "C02.header.type");
            vassert!(h.version.0 == be16(b, 1), "C02.header.version");
            vassert!(h.len == be16(b, 3), "C02.header.len");
            vassert!(is_sub(b, rem, 5, n - 5), "C02.header.remainder");
            vcover!(h.len > 16640, "C02.header.cover.large_len_still_decoded");
        }
    }
}

const CAP_BUF: usize = 16_650;

/// Cap boundary: a 16 650-byte zero array with a symbolic 5-byte header and symbolic length.
/// Every declared length 0..=16640 reaches Ok; 16641.. is TooLarge whatever follows.
macro_rules! cap_harness {
    ($name:ident, $lbl:literal, $f:path, |$v:ident| ($hdr:expr, $data:expr)) => {
        #[kani::proof]
        #[kani::unwind(4)]
        fn $name() {
            let mut buf = [0u8; CAP_BUF];
            let h: [u8; 5] = kani::any();
            buf[0] = h[0];
            buf[1] = h[1];
            buf[2] = h[2];
            buf[3] = h[3];
            buf[4] = h[4];
            let n: usize = kani::any();
            kani::assume(n <= CAP_BUF);
            let b = &buf[..n];
            let r = $f(b);
            check_frame!($lbl, b, r, |$v| ($hdr, $data));
            let l = be16(&h, 3) as usize;
            vcover!(l == 16_640 && class(&r) == Class::Ok, $lbl, ".cover.ok_at_cap");
            vcover!(l == 16_641 && n == CAP_BUF, $lbl, ".cover.just_above_cap_full_buffer");
            vcover!(l == 16_640 && n == 5 + 16_639, $lbl, ".cover.one_byte_short_at_cap");
        }
    };
}
cap_harness!(c02_raw_cap, "C02.rawcap", tp::parse_tls_raw_record, |v| (&v.hdr, v.data));
cap_harness!(c02_encrypted_cap, "C02.enccap", tp::parse_tls_encrypted, |v| (&v.hdr, v.msg.blob));

// ------------------------------------------------------------------------------------------------
// parse_tls_plaintext: framing with the content dispatcher replaced by a marker stub (rule R3).

static mut SEEN_CALLS: u32 = 0;
static mut SEEN_OFF_OK: bool = false;
static mut SEEN_LEN: usize = 0;
static mut SEEN_HDR: (u8, u16, u16) = (0, 0, 0);
static mut BASE: usize = 0;
static mut STUB_FAILS: bool = false;

/// Marker stub for `parse_tls_record_with_header`: records exactly what it was handed.
fn stub_record_with_header<'i>(
    i: &'i [u8],
    hdr: &tp::TlsRecordHeader,
) -> IResult<&'i [u8], alloc::vec::Vec<tp::TlsMessage<'i>>> {
    unsafe {
        SEEN_CALLS += 1;
        SEEN_OFF_OK = (i.as_ptr() as usize) == BASE + 5;
        SEEN_LEN = i.len();
        SEEN_HDR = (hdr.record_type.0, hdr.version.0, hdr.len);
        if STUB_FAILS {
            return Err(Err::Error(tp::nom::error::Error::new(i, ErrorKind::Tag)));
        }
    }
    Ok((i, alloc::vec::Vec::new()))
}

#[kani::proof]
#[kani::unwind(4)]
#[kani::stub(tp::parse_tls_record_with_header, stub_record_with_header)]
fn c02_plaintext_wiring() {
    let buf: [u8; 12] = kani::any();
    let n: usize = kani::any();
    kani::assume(n <= 12);
    let b = &buf[..n];
    let fails: bool = kani::any();
    unsafe {
        BASE = b.as_ptr() as usize;
        STUB_FAILS = fails;
        SEEN_CALLS = 0;
    }
    let r = ManuallyDrop::new(tp::parse_tls_plaintext(b));
    let calls = unsafe { SEEN_CALLS };
    vassert!(class(&r) != Class::Failure, "C02.plaintext.never_returns_Failure");
    match ref_frame(b, 5) {
        Frame::ShortHeader => {
            vassert!(class(&r) == Class::Incomplete, "C02.plaintext.short_header.incomplete");
            vassert!(calls == 0, "C02.plaintext.short_header.content_parser_not_run");
        }
        Frame::TooLarge => {
            vassert!(err_kind(&r) == Some(ErrorKind::TooLarge) && class(&r) == Class::Error, "C02.plaintext.too_large.rejected");
            vassert!(calls == 0, "C02.plaintext.too_large.content_parser_not_run");
            vcover!(b.len() == 5, "C02.plaintext.cover.too_large_nothing_follows");
        }
        Frame::Short { missing } => {
            vassert!(class(&r) == Class::Incomplete, "C02.plaintext.short.incomplete");
            vassert!(needed(&r) == Some(missing), "C02.plaintext.short.needed_exact");
            vassert!(calls == 0, "C02.plaintext.short.content_parser_not_run");
            vcover!(missing > 1, "C02.plaintext.cover.short");
        }
        Frame::Ok { len } => {
            vassert!(calls == 1, "C02.plaintext.ok.content_parser_run_once");
            unsafe {
                vassert!(SEEN_OFF_OK && SEEN_LEN == len, "C02.plaintext.ok.payload_isolated_exactly");
                vassert!(SEEN_HDR == (b[0], be16(b, 1), len as u16), "C02.plaintext.ok.header_passed_verbatim");
            }
            if fails {
                vassert!(class(&r) == Class::Error, "C02.plaintext.ok.content_error_propagates_as_error");
                vcover!(true, "C02.plaintext.cover.content_error");
            } else {
                vassert!(class(&r) == Class::Ok, "C02.plaintext.ok.accepted");
                if let Ok((rem, p)) = &*r {
                    vassert!(p.hdr.record_type.0 == b[0], "C02.plaintext.ok.type");
                    vassert!(p.hdr.version.0 == be16(b, 1), "C02.plaintext.ok.version");
                    vassert!(p.hdr.len as usize == len, "C02.plaintext.ok.len");
                    vassert!(is_sub(b, rem, 5 + len, b.len() - 5 - len), "C02.plaintext.ok.remainder_exact");
                    vcover!(len > 0 && rem.len() > 0, "C02.plaintext.cover.ok_payload_and_rest");
                }
            }
        }
    }
}

// ------------------------------------------------------------------------------------------------
// parse_tls_plaintext with the real content parsers: a complete record never answers Incomplete
// (an inner parser's Incomplete must not leak), and Ok consumes exactly 5+len.

macro_rules! plaintext_real {
    ($name:ident, $ty:expr, $len:expr) => {
        #[kani::proof]
        #[kani::unwind(8)]
        fn $name() {
            const L: usize = $len;
            let mut buf: [u8; 5 + L + 2] = kani::any();
            buf[0] = $ty;
            buf[3] = 0;
            buf[4] = L as u8;
            let b = &buf[..];
            let r = ManuallyDrop::new(tp::parse_tls_plaintext(b));
            vassert!(class(&r) != Class::Incomplete, "C02.plaintext.complete_record_never_incomplete");
            if let Ok((rem, p)) = &*r {
                vassert!(is_sub(b, rem, 5 + L, 2), "C02.plaintext.real.remainder_exact");
                vassert!(p.hdr.len as usize == L && p.hdr.record_type.0 == $ty && p.hdr.version.0 == be16(b, 1),
                         "C02.plaintext.real.header_exact");
                vcover!(true, "C02.plaintext.real.cover.ok");
            }
            vcover!(r.is_err(), "C02.plaintext.real.cover.rejected");
        }
    };
}
plaintext_real!(c02_plaintext_ccs_2, 0x14, 2);
plaintext_real!(c02_plaintext_alert_3, 0x15, 3);
plaintext_real!(c02_plaintext_appdata_2, 0x17, 2);
plaintext_real!(c02_plaintext_heartbeat_0, 0x18, 0);
plaintext_real!(c02_plaintext_heartbeat_2, 0x18, 2);
plaintext_real!(c02_plaintext_heartbeat_3, 0x18, 3);
plaintext_real!(c02_plaintext_heartbeat_5, 0x18, 5);

/// Vacuity guard (thorough tier): must FAIL.
#[cfg(feature = "thorough")]
#[kani::proof]
#[kani::unwind(4)]
fn c02_false_twin() {
    let buf: [u8; 13] = kani::any();
    let n: usize = kani::any();
    kani::assume(n <= 13);
    let b = &buf[..n];
    let r = tp::parse_tls_raw_record(b);
    check_frame!("C02.raw", b, r, |v| (&v.hdr, v.data));
    vassert!(false, "C02.false_twin");
}

/// A complete handshake record never answers Incomplete either: an inner message that is cut short by the
/// record boundary (or whose body parser fails) comes out as an error. Body parsers stubbed (rule R3).
#[kani::proof]
#[kani::unwind(5)]
#[kani::stub(tp::parse_tls_handshake_msg_hello_request, crate::c04::st_hello_request)]
#[kani::stub(tp::parse_tls_handshake_msg_client_hello, crate::c04::st_client_hello)]
#[kani::stub(tp::parse_tls_handshake_msg_server_hello, crate::c04::st_server_hello)]
#[kani::stub(tp::parse_tls_handshake_msg_newsessionticket, crate::c04::st_nst)]
#[kani::stub(tp::parse_tls_handshake_msg_hello_retry_request, crate::c04::st_hrr)]
#[kani::stub(tp::parse_tls_handshake_msg_certificate, crate::c04::st_cert)]
#[kani::stub(tp::parse_tls_handshake_msg_serverkeyexchange, crate::c04::st_ske)]
#[kani::stub(tp::parse_tls_handshake_msg_certificaterequest, crate::c04::st_certreq)]
#[kani::stub(tp::parse_tls_handshake_msg_serverdone, crate::c04::st_done)]
#[kani::stub(tp::parse_tls_handshake_msg_certificateverify, crate::c04::st_certverify)]
#[kani::stub(tp::parse_tls_handshake_msg_clientkeyexchange, crate::c04::st_cke)]
#[kani::stub(tp::parse_tls_handshake_msg_finished, crate::c04::st_finished)]
#[kani::stub(tp::parse_tls_handshake_msg_certificatestatus, crate::c04::st_certstatus)]
#[kani::stub(tp::parse_tls_handshake_msg_key_update, crate::c04::st_keyupdate)]
#[kani::stub(tp::parse_tls_handshake_msg_next_protocol, crate::c04::st_npn)]
fn c02_plaintext_handshake_6() {
    const L: usize = 6;
    let mut buf: [u8; 5 + L + 2] = kani::any();
    buf[0] = 0x16;
    buf[3] = 0;
    buf[4] = L as u8;
    let fail: bool = kani::any();
    unsafe {
        crate::c04::M_FAIL = fail;
    }
    let b = &buf[..];
    let r = ManuallyDrop::new(tp::parse_tls_plaintext(b));
    vassert!(class(&r) != Class::Incomplete, "C02.plaintext.complete_record_never_incomplete");
    if let Ok((rem, p)) = &*r {
        vassert!(is_sub(b, rem, 5 + L, 2), "C02.plaintext.real.remainder_exact");
        vassert!(p.msg.len() >= 1, "C02.plaintext.handshake.at_least_one_message");
        vcover!(p.msg.len() == 1, "C02.plaintext.real.cover.ok");
    }
    vcover!(r.is_err(), "C02.plaintext.real.cover.rejected");
}
