//! C18 — feature matrix. The behavioural part re-runs oracle-differential harnesses of C02/C03/C05/C13
//! under three feature configurations (see the registry). This module holds the compile-time part:
//! every public value type is Send + Sync (discharged by rustc's trait solver when the harness
//! crate is compiled, in each configuration), plus a trivial harness so the facts are tied to a run.
use crate::{vassert, vcover};
use tls_parser as tp;

fn ss<T: Send + Sync>() {}

pub fn assert_all_send_sync() {
    ss::<tp::TlsRecordType>();
    ss::<tp::TlsRecordHeader>();
    ss::<tp::TlsPlaintext<'static>>();
    ss::<tp::TlsEncrypted<'static>>();
    ss::<tp::TlsEncryptedContent<'static>>();
    ss::<tp::TlsRawRecord<'static>>();
    ss::<tp::TlsMessage<'static>>();
    ss::<tp::TlsMessageApplicationData<'static>>();
    ss::<tp::TlsMessageHeartbeat<'static>>();
    ss::<tp::TlsMessageAlert>();
    ss::<tp::TlsAlertSeverity>();
    ss::<tp::TlsAlertDescription>();
    ss::<tp::TlsMessageHandshake<'static>>();
    ss::<tp::TlsHandshakeType>();
    ss::<tp::TlsVersion>();
    ss::<tp::TlsHeartbeatMessageType>();
    ss::<tp::TlsCompressionID>();
    ss::<tp::TlsCipherSuiteID>();
    ss::<tp::TlsClientHelloContents<'static>>();
    ss::<tp::TlsServerHelloContents<'static>>();
    ss::<tp::TlsServerHelloV13Draft18Contents<'static>>();
    ss::<tp::TlsHelloRetryRequestContents<'static>>();
    ss::<tp::TlsNewSessionTicketContent<'static>>();
    ss::<tp::RawCertificate<'static>>();
    ss::<tp::TlsCertificateContents<'static>>();
    ss::<tp::TlsCertificateRequestContents<'static>>();
    ss::<tp::TlsServerKeyExchangeContents<'static>>();
    ss::<tp::TlsClientKeyExchangeContents<'static>>();
    ss::<tp::TlsCertificateStatusContents<'static>>();
    ss::<tp::TlsNextProtocolContent<'static>>();
    ss::<tp::KeyUpdateRequest>();
    ss::<tp::TlsExtension<'static>>();
    ss::<tp::TlsExtensionType>();
    ss::<tp::KeyShareEntry<'static>>();
    ss::<tp::PskKeyExchangeMode>();
    ss::<tp::SNIType>();
    ss::<tp::CertificateStatusType>();
    ss::<tp::OidFilter<'static>>();
    ss::<tp::NamedGroup>();
    ss::<tp::ECCurve<'static>>();
    ss::<tp::ECCurveType>();
    ss::<tp::ECPoint<'static>>();
    ss::<tp::ExplicitPrimeContent<'static>>();
    ss::<tp::ECParametersContent<'static>>();
    ss::<tp::ECParameters<'static>>();
    ss::<tp::ServerECDHParams<'static>>();
    ss::<tp::ServerDHParams<'static>>();
    ss::<tp::HashAlgorithm>();
    ss::<tp::SignAlgorithm>();
    ss::<tp::SignatureAndHashAlgorithm>();
    ss::<tp::SignatureScheme>();
    ss::<tp::DigitallySigned<'static>>();
    ss::<tp::CtVersion>();
    ss::<tp::CtLogID<'static>>();
    ss::<tp::CtExtensions<'static>>();
    ss::<tp::SignedCertificateTimestamp<'static>>();
    ss::<tp::DTLSRecordHeader>();
    ss::<tp::DTLSPlaintext<'static>>();
    ss::<tp::DTLSRawRecord<'static>>();
    ss::<tp::DTLSClientHello<'static>>();
    ss::<tp::DTLSHelloVerifyRequest<'static>>();
    ss::<tp::DTLSMessageHandshake<'static>>();
    ss::<tp::DTLSMessageHandshakeBody<'static>>();
    ss::<tp::DTLSMessage<'static>>();
    ss::<tp::TlsCipherSuite>();
    ss::<&'static tp::TlsCipherSuite>();
    ss::<tp::TlsCipherKx>();
    ss::<tp::TlsCipherAu>();
    ss::<tp::TlsCipherEnc>();
    ss::<tp::TlsCipherEncMode>();
    ss::<tp::TlsCipherMac>();
    ss::<tp::TlsPRF>();
    ss::<tp::TlsRecordsParser>();
    ss::<tp::TlsState>();
    ss::<tp::StateChangeError>();
}

/// The static registry can be read through a shared reference in every configuration.
#[kani::proof]
#[kani::unwind(4)]
fn c18_send_sync_and_registry_witness() {
    assert_all_send_sync();
    let c = tp::TlsCipherSuite::from_id(0x1301);
    vassert!(matches!(c, Some(s) if s.id.0 == 0x1301), "C18.static_registry_readable");
    vcover!(true, "C18.cover.ran");
}
