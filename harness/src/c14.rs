//! C14 — Signed Certificate Timestamp lists decode per RFC 6962.
use crate::oracle::*;
use crate::util::*;
use crate::{vassert, vcover};
use alloc::vec::Vec;
use core::mem::ManuallyDrop;
use tls_parser as tp;
use tp::nom::{Err, IResult};

/// Reference decoder for one length-prefixed SCT starting at `pos`, confined to `b[..limit]`.
pub struct SctRef {
    pub ok: bool,
    pub version: u8,
    pub id: Span,
    pub timestamp: u64,
    pub ext: Span,
    pub hash: u8,
    pub sign: u8,
    pub sig: Span,
    pub end: usize, // offset after the entry (pos + 2 + L) when the entry is contained
    pub contained: bool,
}

pub fn ref_sct(b: &[u8], pos: usize, limit: usize) -> SctRef {
    let z = (0, 0);
    let mut s = SctRef { ok: false, version: 0, id: z, timestamp: 0, ext: z, hash: 0, sign: 0, sig: z, end: pos, contained: false };
    if limit - pos < 2 {
        return s;
    }
    let l = be16(b, pos) as usize;
    if l > limit - pos - 2 {
        return s; // declared length exceeds the enclosing block
    }
    s.contained = true;
    s.end = pos + 2 + l;
    let mut rd = Rd { b: &b[..s.end], pos: pos + 2, short: false };
    s.version = rd.u8();
    s.id = rd.take(32);
    s.timestamp = rd.u64();
    s.ext = rd.lp16();
    s.hash = rd.u8();
    s.sign = rd.u8();
    s.sig = rd.lp16();
    s.ok = !rd.short;
    s
}

pub fn check_sct(b: &[u8], v: &tp::SignedCertificateTimestamp, s: &SctRef) {
    vassert!(v.version.0 == s.version, "C14.sct.version_exact");
    vassert!(is_sub(b, &v.id.key_id[..], s.id.0, 32), "C14.sct.log_id_exact");
    vassert!(v.timestamp == s.timestamp, "C14.sct.timestamp_exact");
    vassert!(span_is(b, v.extensions.0, s.ext), "C14.sct.extensions_exact");
    match &v.signature.alg {
        Some(a) => {
            vassert!(a.hash.0 == s.hash, "C14.sct.hash_algorithm_exact");
            vassert!(a.sign.0 == s.sign, "C14.sct.signature_algorithm_exact");
        }
        None => vassert!(false, "C14.sct.signature_carries_algorithm_pair"),
    }
    vassert!(span_is(b, v.signature.data, s.sig), "C14.sct.signature_exact");
}

/// Single SCT parser: consumes exactly one length-prefixed entry.
#[kani::proof]
#[kani::unwind(10)]
fn c14_sct_single() {
    let buf: [u8; 53] = kani::any();
    let n: usize = kani::any();
    kani::assume(n <= 53);
    let b = &buf[..n];
    let r = tp::parse_ct_signed_certificate_timestamp(b);
    let s = ref_sct(b, 0, n);
    if !s.contained {
        vassert!(r.is_err(), "C14.single.length_exceeds_input.no_value");
        vcover!(n >= 2, "C14.single.cover.declared_length_exceeds_input");
    } else if !s.ok {
        vassert!(r.is_err(), "C14.single.fields_overrun_entry.no_value");
        vcover!(s.end >= 47, "C14.single.cover.inner_length_overruns_entry");
    } else {
        vassert!(r.is_ok(), "C14.single.wellformed.accepted");
        if let Ok((rem, v)) = &r {
            check_sct(b, v, &s);
            vassert!(is_sub(b, rem, s.end, n - s.end), "C14.single.consumes_exactly_one_entry");
            vcover!(s.ext.1 > 0 && s.sig.1 > 0, "C14.single.cover.ext_and_signature_nonempty");
            vcover!(rem.len() > 0, "C14.single.cover.rest_follows");
        }
    }
}

/// List parser on a buffer that can hold `MAXE` minimal entries.
macro_rules! sct_list {
    ($name:ident, $n:expr, $unw:expr) => {
        #[kani::proof]
        #[kani::unwind($unw)]
        fn $name() {
            let buf: [u8; $n] = kani::any();
            let n: usize = kani::any();
            kani::assume(n <= $n);
            let b = &buf[..n];
            let r = ManuallyDrop::new(tp::parse_ct_signed_certificate_timestamp_list(b));
            if n < 2 || (be16(b, 0) as usize) > n - 2 {
                vassert!(r.is_err(), "C14.list.length_exceeds_input.no_value");
                vcover!(n >= 2, "C14.list.cover.declared_length_exceeds_input");
                return;
            }
            let limit = 2 + be16(b, 0) as usize;
            vassert!(r.is_ok(), "C14.list.contained.accepted");
            if let Ok((rem, v)) = &*r {
                vassert!(is_sub(b, rem, limit, n - limit), "C14.list.consumes_exactly_declared_length");
                // walk the reference entries
                let mut pos = 2;
                let mut k = 0;
                while pos < limit {
                    let s = ref_sct(b, pos, limit);
                    if !s.ok {
                        break;
                    }
                    vassert!(k < v.len(), "C14.list.every_wellformed_entry_is_returned");
                    if k < v.len() {
                        check_sct(b, &v[k], &s);
                    }
                    k += 1;
                    pos = s.end;
                }
                vassert!(v.len() == k, "C14.list.no_value_for_overrunning_or_malformed_entry");
                vcover!(k == 0 && limit == 2, "C14.list.cover.empty_list");
                vcover!(k == 1 && pos < limit, "C14.list.cover.one_entry_then_entry_exceeding_list");
                vcover!(k == 1 && pos == limit, "C14.list.cover.one_entry_exact");
            }
        }
    };
}
// (sym-len lists with the real entry parser -- 54 and 101 bytes -- run out of memory; lists are covered by the
// marker-stub wiring harness plus the concrete-shape instances below)

// ---- list logic with the single-entry parser replaced by a marker stub (rule R3): order, exact hand-over,
// stop at the first entry that exceeds the list, exact consumption of the declared list length.
static ZERO_ID: [u8; 32] = [0; 32];

fn stub_sct<'a>(i: &'a [u8]) -> IResult<&'a [u8], tp::SignedCertificateTimestamp<'a>> {
    // a length-prefixed entry, content opaque
    if i.len() < 2 {
        return Err(Err::Incomplete(tp::nom::Needed::Unknown));
    }
    let l = be16(i, 0) as usize;
    if i.len() - 2 < l {
        return Err(Err::Incomplete(tp::nom::Needed::Unknown));
    }
    let content = &i[2..2 + l];
    Ok((
        &i[2 + l..],
        tp::SignedCertificateTimestamp {
            version: tp::CtVersion(0),
            id: tp::CtLogID { key_id: &ZERO_ID },
            timestamp: 0,
            extensions: tp::CtExtensions(content),
            signature: tp::DigitallySigned { alg: None, data: &i[..0] },
        },
    ))
}

#[kani::proof]
#[kani::unwind(8)]
#[kani::stub(tp::parse_ct_signed_certificate_timestamp, stub_sct)]
fn c14_sct_list_wiring() {
    let buf: [u8; 11] = kani::any();
    let n: usize = kani::any();
    kani::assume(n <= 11);
    let b = &buf[..n];
    let r = ManuallyDrop::new(tp::parse_ct_signed_certificate_timestamp_list(b));
    if n < 2 || (be16(b, 0) as usize) > n - 2 {
        vassert!(r.is_err(), "C14.listwiring.length_exceeds_input.no_value");
        return;
    }
    let limit = 2 + be16(b, 0) as usize;
    vassert!(r.is_ok(), "C14.listwiring.contained.accepted");
    if let Ok((rem, v)) = &*r {
        vassert!(is_sub(b, rem, limit, n - limit), "C14.listwiring.consumes_exactly_declared_length");
        let mut pos = 2;
        let mut k = 0;
        while pos + 2 <= limit {
            let l = be16(b, pos) as usize;
            if l > limit - pos - 2 {
                break;
            }
            vassert!(k < v.len(), "C14.listwiring.every_contained_entry_is_parsed");
            if k < v.len() {
                vassert!(is_sub(b, v[k].extensions.0, pos + 2, l), "C14.listwiring.entry_handed_over_exactly_in_wire_order");
            }
            k += 1;
            pos += 2 + l;
        }
        vassert!(v.len() == k, "C14.listwiring.stops_at_first_entry_exceeding_the_list");
        vcover!(k == 2 && pos == limit, "C14.listwiring.cover.two_entries_exact");
        vcover!(k == 1 && pos + 2 <= limit, "C14.listwiring.cover.second_entry_exceeds_list");
        vcover!(k == 3, "C14.listwiring.cover.three_entries");
    }
}

/// Real entry parser, concrete shape: a list of exactly one 47-byte entry (contents and inner lengths symbolic).
#[kani::proof]
#[kani::unwind(10)]
fn c14_sct_list_one_shape() {
    let mut buf: [u8; 2 + 2 + 47 + 1] = kani::any();
    buf[0] = 0;
    buf[1] = 49;
    buf[2] = 0;
    buf[3] = 47;
    let b = &buf[..];
    let r = ManuallyDrop::new(tp::parse_ct_signed_certificate_timestamp_list(b));
    vassert!(r.is_ok(), "C14.listshape.contained.accepted");
    if let Ok((rem, v)) = &*r {
        vassert!(is_sub(b, rem, 51, 1), "C14.listshape.consumes_exactly_declared_length");
        let s = ref_sct(b, 2, 51);
        if s.ok {
            vassert!(v.len() == 1, "C14.listshape.wellformed_entry_returned");
            if v.len() == 1 {
                check_sct(b, &v[0], &s);
            }
            vcover!(true, "C14.listshape.cover.one_entry");
        } else {
            vassert!(v.len() == 0, "C14.listshape.malformed_entry_yields_no_value");
            vcover!(true, "C14.listshape.cover.inner_length_overruns_entry");
        }
    }
}

/// Real entry parser, concrete shape: a list of exactly two 47-byte entries (contents and inner lengths symbolic).
#[cfg(feature = "thorough")]
#[kani::proof]
#[kani::unwind(10)]
fn c14_sct_list_two_shape() {
    let mut buf: [u8; 2 + 49 + 49 + 1] = kani::any();
    buf[0] = 0;
    buf[1] = 98;
    buf[2] = 0;
    buf[3] = 47;
    buf[51] = 0;
    buf[52] = 47;
    let b = &buf[..];
    let r = ManuallyDrop::new(tp::parse_ct_signed_certificate_timestamp_list(b));
    vassert!(r.is_ok(), "C14.listshape.contained.accepted");
    if let Ok((rem, v)) = &*r {
        vassert!(is_sub(b, rem, 100, 1), "C14.listshape.consumes_exactly_declared_length");
        let s1 = ref_sct(b, 2, 100);
        let s2 = ref_sct(b, 51, 100);
        if s1.ok && s2.ok {
            vassert!(v.len() == 2, "C14.listshape.both_entries_returned_in_order");
            if v.len() == 2 {
                check_sct(b, &v[0], &s1);
                check_sct(b, &v[1], &s2);
            }
            vcover!(true, "C14.listshape.cover.two_entries");
        } else if s1.ok {
            vassert!(v.len() == 1, "C14.listshape.stops_at_malformed_second_entry");
        } else {
            vassert!(v.len() == 0, "C14.listshape.malformed_entry_yields_no_value");
        }
    }
}
