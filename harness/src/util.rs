//! Shared helpers for the harnesses.
use tls_parser as tp;
use tp::nom::{Err, IResult, Needed};

/// Offset of `s` from the start of `base` (wrapping; compare against lengths).
#[inline(always)]
pub fn off(base: &[u8], s: &[u8]) -> usize {
    (s.as_ptr() as usize).wrapping_sub(base.as_ptr() as usize)
}

/// `s` is exactly `base[o..o+l]` (pointer identity, not content equality).
#[inline(always)]
pub fn is_sub(base: &[u8], s: &[u8], o: usize, l: usize) -> bool {
    s.len() == l && (l == 0 && o <= base.len() && off(base, s) == o || off(base, s) == o)
}

/// `s` lies within `base[..limit]`.
#[inline(always)]
pub fn inside(base: &[u8], s: &[u8], limit: usize) -> bool {
    let o = off(base, s);
    o <= limit && s.len() <= limit - o
}

#[inline(always)]
pub fn be16(b: &[u8], o: usize) -> u16 {
    ((b[o] as u16) << 8) | b[o + 1] as u16
}
#[inline(always)]
pub fn be24(b: &[u8], o: usize) -> u32 {
    ((b[o] as u32) << 16) | ((b[o + 1] as u32) << 8) | b[o + 2] as u32
}
#[inline(always)]
pub fn be32(b: &[u8], o: usize) -> u32 {
    ((b[o] as u32) << 24) | ((b[o + 1] as u32) << 16) | ((b[o + 2] as u32) << 8) | b[o + 3] as u32
}

/// Outcome class of an IResult.
#[derive(Clone, Copy, PartialEq, Eq, Debug)]
pub enum Class {
    Ok,
    Incomplete,
    Error,
    Failure,
}

#[inline(always)]
pub fn class<I, O, E>(r: &Result<(I, O), Err<E>>) -> Class {
    match r {
        Ok(_) => Class::Ok,
        Err(Err::Incomplete(_)) => Class::Incomplete,
        Err(Err::Error(_)) => Class::Error,
        Err(Err::Failure(_)) => Class::Failure,
    }
}

/// `Some(n)` when the result is `Incomplete(Size(n))`, `Some(0)` for `Unknown`.
#[inline(always)]
pub fn needed<I, O, E>(r: &Result<(I, O), Err<E>>) -> Option<usize> {
    match r {
        Err(Err::Incomplete(Needed::Size(n))) => Some(n.get()),
        Err(Err::Incomplete(Needed::Unknown)) => Some(0),
        _ => None,
    }
}

#[inline(always)]
pub fn err_kind<'a, O>(r: &IResult<&'a [u8], O>) -> Option<tp::nom::error::ErrorKind> {
    match r {
        Err(Err::Error(e)) | Err(Err::Failure(e)) => Some(e.code),
        _ => None,
    }
}

/// Labelled assertion: the label is what the driver reports and what known-findings key on.
#[cfg(kani)]
#[macro_export]
macro_rules! vassert {
    ($c:expr, $($l:expr),+) => { kani::assert($c, concat!($($l),+)) };
}
#[cfg(not(kani))]
#[macro_export]
macro_rules! vassert {
    ($c:expr, $($l:expr),+) => { assert!($c, concat!($($l),+)) };
}
/// Labelled cover (vacuity witness).
#[cfg(kani)]
#[macro_export]
macro_rules! vcover {
    ($c:expr, $($l:expr),+) => { kani::cover($c, concat!($($l),+)) };
}
#[cfg(not(kani))]
#[macro_export]
macro_rules! vcover {
    ($c:expr, $($l:expr),+) => { let _ = $c; };
}
