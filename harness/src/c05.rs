//! C05 — extensions decode by IANA type; GREASE and unknown types are preserved.
use crate::oracle::*;
use crate::util::*;
use crate::{vassert, vcover};
use alloc::vec::Vec;
use core::mem::ManuallyDrop;
use tls_parser as tp;
use tp::nom::error::ErrorKind;
use tp::nom::{Err, IResult, Needed};
use tp::{TlsExtension as X, TlsExtensionType};

// ------------------------------------------------------------------------------------------------
// (1) Dispatch tables over all 65 536 types: every content parser replaced by an echo marker.

static mut LAST_MARK: u16 = 0;
static mut CALLS: u32 = 0;
static mut ARG_OK: bool = true;

const NONE: u16 = 0xeeee; // "no content parser ran"

fn echo<'a>(mark: u16, i: &'a [u8], ext_len: Option<u16>) -> IResult<&'a [u8], X<'a>> {
    unsafe {
        LAST_MARK = mark;
        CALLS += 1;
        if let Some(l) = ext_len {
            if l as usize != i.len() {
                ARG_OK = false;
            }
        }
    }
    Ok((i, X::Unknown(TlsExtensionType(mark), i)))
}
macro_rules! st1 { ($n:ident, $m:expr) => { fn $n(i: &[u8]) -> IResult<&[u8], X> { echo($m, i, None) } }; }
macro_rules! st2 { ($n:ident, $m:expr) => { fn $n(i: &[u8], l: u16) -> IResult<&[u8], X> { echo($m, i, Some(l)) } }; }
st1!(s_sni, 0);
st1!(s_mfl, 1);
st2!(s_status, 5);
st1!(s_groups, 10);
st1!(s_pf, 11);
st1!(s_sigalgs, 13);
st1!(s_hb, 15);
st1!(s_alpn, 16);
st1!(s_sct, 18);
st2!(s_padding, 21);
st2!(s_etm, 22);
st2!(s_ems, 23);
st1!(s_rsl, 28);
st2!(s_ticket, 35);
st2!(s_ksold, 40);
st2!(s_psk, 41);
st2!(s_early, 42);
st2!(s_versions, 43);
st2!(s_cookie, 44);
st1!(s_pskmodes, 45);
st1!(s_oid, 48);
st2!(s_pha, 49);
st2!(s_keyshare, 51);
st2!(s_npn, 13172);
st1!(s_reneg, 0xff01);
st1!(s_esni, 0xffce);

/// IANA type -> which of the 26 typed decoders is responsible (reference table, typed in from the registry).
fn ref_decoder(t: u16) -> u16 {
    match t {
        0 | 1 | 5 | 10 | 11 | 13 | 15 | 16 | 18 | 21 | 22 | 23 | 28 | 35 | 40 | 41 | 42 | 43 | 44 | 45 | 48 | 49 | 51 | 13172 | 0xff01 | 0xffce => t,
        _ => NONE,
    }
}
fn is_grease(t: u16) -> bool {
    t & 0x0f0f == 0x0a0a && (t >> 8) == (t & 0xff)
}

#[derive(Clone, Copy, PartialEq)]
enum Which {
    Generic,
    Client,
    Server,
}

fn dispatch_check(which: Which) {
    let buf: [u8; 8] = kani::any();
    let n: usize = kani::any();
    kani::assume(n <= 8);
    let b = &buf[..n];
    unsafe {
        CALLS = 0;
        LAST_MARK = NONE;
        ARG_OK = true;
    }
    let r = ManuallyDrop::new(match which {
        Which::Generic => tp::parse_tls_extension(b),
        Which::Client => tp::parse_tls_client_hello_extension(b),
        Which::Server => tp::parse_tls_server_hello_extension(b),
    });
    let (calls, mark, arg_ok) = unsafe { (CALLS, LAST_MARK, ARG_OK) };
    if n < 4 || (be16(b, 2) as usize) > n - 4 {
        vassert!(r.is_err(), "C05.dispatch.length_exceeds_block.no_value");
        vassert!(calls == 0, "C05.dispatch.length_exceeds_block.no_content_parser_run");
        vcover!(n >= 4, "C05.dispatch.cover.length_exceeds_block");
        return;
    }
    let t = be16(b, 0);
    let l = be16(b, 2) as usize;
    vassert!(r.is_ok(), "C05.dispatch.contained_extension_accepted_with_echo_stubs");
    vassert!(arg_ok, "C05.dispatch.ext_len_argument_is_data_length");
    if let Ok((rem, x)) = &*r {
        vassert!(is_sub(b, rem, 4 + l, n - 4 - l), "C05.dispatch.remainder_after_declared_length");
        if is_grease(t) {
            // the 16 RFC 8701 code points 0x0a0a, 0x1a1a, .. 0xfafa bypass the table
            vassert!(calls == 0, "C05.dispatch.grease.no_content_parser_run");
            vassert!(matches!(x, X::Grease(g, d) if *g == t && is_sub(b, d, 4, l)), "C05.dispatch.grease_preserved_as_Grease_type_data");
            vcover!(t == 0x3a3a, "C05.dispatch.cover.grease");
            return;
        }
        let want = ref_decoder(t);
        match which {
            Which::Generic => {
                vassert!(mark == want, "C05.dispatch.generic.type_selects_its_iana_decoder");
            }
            Which::Client => {
                vassert!(mark == want || mark == NONE, "C05.dispatch.client.never_decodes_as_a_different_type");
            }
            Which::Server => {
                vassert!(mark == want || mark == NONE, "C05.dispatch.server.never_decodes_as_a_different_type");
            }
        }
        // a dispatcher that recognises a type recognises it whatever the content length (agreement "on every
        // type they all recognise"): the same type with an empty body selects the same decoder or none in both cases
        if which != Which::Generic {
            let e = [b[0], b[1], 0, 0];
            unsafe {
                LAST_MARK = NONE;
            }
            let r0 = ManuallyDrop::new(match which {
                Which::Client => tp::parse_tls_client_hello_extension(&e[..]),
                _ => tp::parse_tls_server_hello_extension(&e[..]),
            });
            let mark0 = unsafe { LAST_MARK };
            // recognised = a content parser ran, or a typed variant was built without one
            let rec = mark != NONE || !matches!(x, X::Unknown(_, _));
            let rec0 = mark0 != NONE || matches!(&*r0, Ok((_, x0)) if !matches!(x0, X::Unknown(_, _)));
            vassert!(r0.is_ok() && rec0 == rec, "C05.dispatch.recognition_does_not_depend_on_content_length");
        }
        if mark == NONE {
            vassert!(calls == 0, "C05.dispatch.unknown.no_content_parser_run");
            if want == NONE || matches!(x, X::Unknown(_, _)) {
                vassert!(matches!(x, X::Unknown(ty, d) if ty.0 == t && is_sub(b, d, 4, l)), "C05.dispatch.unknown_preserved_as_Unknown_type_data");
            } else {
                // a typed value built without running a content parser must carry the wire type
                vassert!(tp::TlsExtensionType::from(x).0 == t, "C05.dispatch.typed_without_content_parser_has_the_wire_type");
            }
            vcover!(want == NONE, "C05.dispatch.cover.unknown_type");
        } else {
            vassert!(calls == 1, "C05.dispatch.known.exactly_one_content_parser_run");
            vassert!(matches!(x, X::Unknown(ty, d) if ty.0 == mark && is_sub(b, d, 4, l)), "C05.dispatch.known.content_parser_given_exactly_the_data");
            vcover!(t == 0xffce, "C05.dispatch.cover.esni");
            vcover!(t == 21, "C05.dispatch.cover.padding");
        }
    }
}

macro_rules! dispatch_harness {
    ($name:ident, $which:expr) => {
        #[kani::proof]
        #[kani::unwind(4)]
        #[kani::stub(tp::parse_tls_extension_sni_content, s_sni)]
        #[kani::stub(tp::parse_tls_extension_max_fragment_length_content, s_mfl)]
        #[kani::stub(tp::tls_extensions::parse_tls_extension_status_request_content, s_status)]
        #[kani::stub(tp::parse_tls_extension_elliptic_curves_content, s_groups)]
        #[kani::stub(tp::parse_tls_extension_ec_point_formats_content, s_pf)]
        #[kani::stub(tp::parse_tls_extension_signature_algorithms_content, s_sigalgs)]
        #[kani::stub(tp::parse_tls_extension_heartbeat_content, s_hb)]
        #[kani::stub(tp::parse_tls_extension_alpn_content, s_alpn)]
        #[kani::stub(tp::parse_tls_extension_signed_certificate_timestamp_content, s_sct)]
        #[kani::stub(tp::tls_extensions::parse_tls_extension_padding_content, s_padding)]
        #[kani::stub(tp::tls_extensions::parse_tls_extension_encrypt_then_mac_content, s_etm)]
        #[kani::stub(tp::tls_extensions::parse_tls_extension_extended_master_secret_content, s_ems)]
        #[kani::stub(tp::tls_extensions::parse_tls_extension_record_size_limit, s_rsl)]
        #[kani::stub(tp::tls_extensions::parse_tls_extension_session_ticket_content, s_ticket)]
        #[kani::stub(tp::tls_extensions::parse_tls_extension_key_share_old_content, s_ksold)]
        #[kani::stub(tp::tls_extensions::parse_tls_extension_pre_shared_key_content, s_psk)]
        #[kani::stub(tp::tls_extensions::parse_tls_extension_early_data_content, s_early)]
        #[kani::stub(tp::tls_extensions::parse_tls_extension_supported_versions_content, s_versions)]
        #[kani::stub(tp::tls_extensions::parse_tls_extension_cookie_content, s_cookie)]
        #[kani::stub(tp::parse_tls_extension_psk_key_exchange_modes_content, s_pskmodes)]
        #[kani::stub(tp::tls_extensions::parse_tls_extension_oid_filters, s_oid)]
        #[kani::stub(tp::tls_extensions::parse_tls_extension_post_handshake_auth_content, s_pha)]
        #[kani::stub(tp::tls_extensions::parse_tls_extension_key_share_content, s_keyshare)]
        #[kani::stub(tp::tls_extensions::parse_tls_extension_npn_content, s_npn)]
        #[kani::stub(tp::parse_tls_extension_renegotiation_info_content, s_reneg)]
        #[kani::stub(tp::parse_tls_extension_encrypted_server_name, s_esni)]
        fn $name() {
            dispatch_check($which);
        }
    };
}
/// Native twin of the dispatch harnesses (no stubs; same order of symbolic inputs): used to replay a
/// counterexample of the stubbed harness against the real content parsers. Checks the end-to-end
/// consequence of the table: a decoded variant's derived tag equals the wire type, GREASE code points
/// decode to Grease and unassigned types to Unknown.
fn dispatch_twin(which: Which) {
    let buf: [u8; 8] = kani::any();
    let n: usize = kani::any();
    kani::assume(n <= 8);
    let b = &buf[..n];
    let r = ManuallyDrop::new(match which {
        Which::Generic => tp::parse_tls_extension(b),
        Which::Client => tp::parse_tls_client_hello_extension(b),
        Which::Server => tp::parse_tls_server_hello_extension(b),
    });
    if n < 4 || (be16(b, 2) as usize) > n - 4 {
        vassert!(r.is_err(), "C05.dispatch.length_exceeds_block.no_value");
        return;
    }
    let t = be16(b, 0);
    if which != Which::Generic && !is_grease(t) {
        // recognition of a type does not depend on the content length. The stubbed harness decides this for
        // every type; natively it can be replayed with a fixed valid non-empty content per type
        // (the symbolic content may be rejected by the real decoder); it fires when both lengths are accepted.
        let body: Option<&'static [u8]> = match t {
            0 | 18 | 48 => Some(&[0, 0]),
            1 | 15 => Some(&[1]),
            5 | 11 => Some(&[1, 0]),
            10 => Some(&[0, 2, 0, 23]),
            13 => Some(&[0, 2, 4, 3]),
            16 => Some(&[0, 3, 2, 0x68, 0x32]),
            21 | 35 | 40 | 41 | 44 | 51 => Some(&[7]),
            28 => Some(&[0x40, 0]),
            42 => Some(&[0, 0, 0, 1]),
            43 => Some(&[2, 3, 4]),
            45 => Some(&[1, 1]),
            0xff01 => Some(&[0]),
            0xffce => Some(&[0x13, 0x01, 0, 0x1d, 0, 0, 0, 0, 0, 0]),
            _ => None,
        };
        if let Some(body) = body {
            let mut full = [0u8; 16];
            full[0] = b[0];
            full[1] = b[1];
            full[3] = body.len() as u8;
            let mut k = 0;
            while k < body.len() {
                full[4 + k] = body[k];
                k += 1;
            }
            let e = [b[0], b[1], 0, 0];
            let (r0, r1) = match which {
                Which::Client => (tp::parse_tls_client_hello_extension(&e[..]), tp::parse_tls_client_hello_extension(&full[..4 + body.len()])),
                _ => (tp::parse_tls_server_hello_extension(&e[..]), tp::parse_tls_server_hello_extension(&full[..4 + body.len()])),
            };
            let (r0, r1) = (ManuallyDrop::new(r0), ManuallyDrop::new(r1));
            if let (Ok((_, x0)), Ok((_, x1))) = (&*r0, &*r1) {
                vassert!(matches!(x0, X::Unknown(_, _)) == matches!(x1, X::Unknown(_, _)), "C05.dispatch.recognition_does_not_depend_on_content_length");
            }
        }
    }
    if let Ok((_, x)) = &*r {
        if is_grease(t) {
            vassert!(matches!(x, X::Grease(g, _) if *g == t), "C05.dispatch.grease_preserved_as_Grease_type_data");
        } else {
            vassert!(!matches!(x, X::Grease(_, _)), "C05.dispatch.unknown_preserved_as_Unknown_type_data");
            vassert!(TlsExtensionType::from(x).0 == t, "C05.dispatch.never_decodes_as_a_different_type");
            if ref_decoder(t) == NONE {
                vassert!(matches!(x, X::Unknown(ty, _) if ty.0 == t), "C05.dispatch.unknown_preserved_as_Unknown_type_data");
            }
        }
    }
}
#[kani::proof]
#[kani::unwind(4)]
fn c05_dispatch_generic_native() { dispatch_twin(Which::Generic); }
#[kani::proof]
#[kani::unwind(4)]
fn c05_dispatch_client_native() { dispatch_twin(Which::Client); }
#[kani::proof]
#[kani::unwind(4)]
fn c05_dispatch_server_native() { dispatch_twin(Which::Server); }

dispatch_harness!(c05_dispatch_generic, Which::Generic);
dispatch_harness!(c05_dispatch_client, Which::Client);
dispatch_harness!(c05_dispatch_server, Which::Server);

// ------------------------------------------------------------------------------------------------
// (2) Single-purpose parsers: accept exactly their own IANA type, then agree with the generic parser.
// Tag bytes symbolic, body a concrete well-formed instance.

fn same_ext(ba: &[u8], a: &X, bb: &[u8], b: &X) -> bool {
    // structural comparison sufficient for the bodies used below (slices by pointer)
    // same span relative to the respective input buffer (the two buffers hold identical bytes)
    let ps = |a: &[u8], b: &[u8]| -> bool { off(ba, a) == off(bb, b) && a.len() == b.len() };
    match (a, b) {
        (X::SNI(x), X::SNI(y)) => x.len() == y.len() && (x.len() == 0 || ((x[0].0).0 == (y[0].0).0 && ps(x[0].1, y[0].1))),
        (X::MaxFragmentLength(x), X::MaxFragmentLength(y)) => x == y,
        (X::StatusRequest(x), X::StatusRequest(y)) => match (x, y) {
            (Some((t, d)), Some((u, e))) => t.0 == u.0 && ps(d, e),
            (None, None) => true,
            _ => false,
        },
        (X::EllipticCurves(x), X::EllipticCurves(y)) => x.len() == y.len() && (x.len() == 0 || x[0].0 == y[0].0),
        (X::EcPointFormats(x), X::EcPointFormats(y)) => ps(x, y),
        (X::SignatureAlgorithms(x), X::SignatureAlgorithms(y)) => x.len() == y.len() && (x.len() == 0 || x[0] == y[0]),
        (X::Heartbeat(x), X::Heartbeat(y)) => x == y,
        (X::EncryptThenMac, X::EncryptThenMac) => true,
        (X::ExtendedMasterSecret, X::ExtendedMasterSecret) => true,
        (X::SessionTicket(x), X::SessionTicket(y)) => ps(x, y),
        (X::KeyShare(x), X::KeyShare(y)) => ps(x, y),
        (X::PreSharedKey(x), X::PreSharedKey(y)) => ps(x, y),
        (X::EarlyData(x), X::EarlyData(y)) => x == y,
        (X::SupportedVersions(x), X::SupportedVersions(y)) => x.len() == y.len() && (x.len() == 0 || x[0].0 == y[0].0),
        (X::Cookie(x), X::Cookie(y)) => ps(x, y),
        (X::PskExchangeModes(x), X::PskExchangeModes(y)) => x.len() == y.len() && (x.len() == 0 || x[0] == y[0]),
        _ => false,
    }
}

macro_rules! tag_parser {
    ($name:ident, $f:path, $code:expr, $lbl:literal, [$($body:expr),*]) => {
        #[kani::proof]
        #[kani::unwind(8)]
        fn $name() {
            let t: u16 = kani::any();
            let body: [u8; BL] = [$($body as u8),*];
            const BL: usize = { let a: &[u8] = &[$($body as u8),*]; a.len() };
            let mut buf = [0u8; 4 + BL + 1];
            buf[0] = (t >> 8) as u8;
            buf[1] = t as u8;
            buf[2] = 0;
            buf[3] = BL as u8;
            let mut k = 0;
            while k < BL {
                buf[4 + k] = body[k];
                k += 1;
            }
            buf[4 + BL] = kani::any();
            let b = &buf[..];
            let r = ManuallyDrop::new($f(b));
            if t == $code {
                vassert!(r.is_ok(), $lbl, ".own_type_with_wellformed_body.accepted");
                // generic parser on a copy whose type bytes are the concrete own code (keeps its dispatch constant)
                let mut cb = buf;
                cb[0] = (($code as u16) >> 8) as u8;
                cb[1] = ($code as u16) as u8;
                let g = ManuallyDrop::new(tp::parse_tls_extension(&cb[..]));
                vassert!(g.is_ok(), $lbl, ".generic_parser_accepts_the_same_bytes");
                if let (Ok((r1, x1)), Ok((r2, x2))) = (&*r, &*g) {
                    vassert!(same_ext(b, x1, &cb[..], x2), $lbl, ".agrees_with_generic_parser");
                    vassert!(off(b, r1) == off(&cb[..], r2) && r1.len() == r2.len(), $lbl, ".same_remainder_as_generic_parser");
                    vassert!(TlsExtensionType::from(x1).0 == $code, $lbl, ".derived_tag_is_own_type");
                    vcover!(true, $lbl, ".cover.own_type");
                }
            } else {
                vassert!(r.is_err(), $lbl, ".accepts_exactly_its_own_iana_type");
                vcover!(true, $lbl, ".cover.other_type_rejected");
            }
        }
    };
}
tag_parser!(c05_tag_sni, tp::parse_tls_extension_sni, 0, "C05.tag.sni", [0, 4, 0, 0, 1, 0x61]);
tag_parser!(c05_tag_max_fragment_length, tp::parse_tls_extension_max_fragment_length, 1, "C05.tag.max_fragment_length", [2]);
tag_parser!(c05_tag_status_request, tp::parse_tls_extension_status_request, 5, "C05.tag.status_request", [1, 0, 0, 0, 0]);
tag_parser!(c05_tag_elliptic_curves, tp::parse_tls_extension_elliptic_curves, 10, "C05.tag.elliptic_curves", [0, 2, 0, 23]);
tag_parser!(c05_tag_ec_point_formats, tp::parse_tls_extension_ec_point_formats, 11, "C05.tag.ec_point_formats", [1, 0]);
tag_parser!(c05_tag_signature_algorithms, tp::parse_tls_extension_signature_algorithms, 13, "C05.tag.signature_algorithms", [0, 2, 4, 3]);
tag_parser!(c05_tag_heartbeat, tp::parse_tls_extension_heartbeat, 15, "C05.tag.heartbeat", [1]);
tag_parser!(c05_tag_encrypt_then_mac, tp::parse_tls_extension_encrypt_then_mac, 22, "C05.tag.encrypt_then_mac", []);
tag_parser!(c05_tag_extended_master_secret, tp::parse_tls_extension_extended_master_secret, 23, "C05.tag.extended_master_secret", []);
tag_parser!(c05_tag_session_ticket, tp::parse_tls_extension_session_ticket, 35, "C05.tag.session_ticket", [9, 8]);
tag_parser!(c05_tag_key_share, tp::parse_tls_extension_key_share, 51, "C05.tag.key_share", [0, 29, 0, 1, 7]);
tag_parser!(c05_tag_pre_shared_key, tp::parse_tls_extension_pre_shared_key, 41, "C05.tag.pre_shared_key", [0, 1]);
tag_parser!(c05_tag_early_data, tp::parse_tls_extension_early_data, 42, "C05.tag.early_data", [0, 0, 1, 0]);
tag_parser!(c05_tag_supported_versions, tp::parse_tls_extension_supported_versions, 43, "C05.tag.supported_versions", [2, 3, 4]);
tag_parser!(c05_tag_cookie, tp::parse_tls_extension_cookie, 44, "C05.tag.cookie", [0, 1, 5]);
tag_parser!(c05_tag_psk_key_exchange_modes, tp::parse_tls_extension_psk_key_exchange_modes, 45, "C05.tag.psk_key_exchange_modes", [1, 1]);

// ------------------------------------------------------------------------------------------------
// (3) Content decoding per type through the generic parser: type and total length concrete (R1/R2),
// content bytes and the byte after the extension symbolic.

macro_rules! content {
    ($name:ident, $code:expr, $len:expr, $unw:expr, |$d:ident, $x:ident| $chk:block) => {
        #[kani::proof]
        #[kani::unwind($unw)]
        fn $name() {
            const L: usize = $len;
            let mut buf: [u8; 4 + L + 1] = kani::any();
            buf[0] = (($code as u16) >> 8) as u8;
            buf[1] = ($code as u16) as u8;
            buf[2] = 0;
            buf[3] = L as u8;
            let b = &buf[..];
            let r = ManuallyDrop::new(tp::parse_tls_extension(b));
            let $d = &b[4..4 + L];
            if let Ok((rem, x)) = &*r {
                vassert!(is_sub(b, rem, 4 + L, 1), "C05.content.remainder_after_declared_length");
                vassert!(TlsExtensionType::from(x).0 == $code as u16, "C05.content.derived_tag_equals_wire_type");
            }
            let $x: Option<&X> = r.as_ref().ok().map(|(_, x)| x);
            $chk
        }
    };
}

// server_name: empty (server form) or a list of (name_type, HostName<u16>)
content!(c05_content_sni_0, 0, 0, 5, |d, x| {
    vassert!(matches!(x, Some(X::SNI(v)) if v.len() == 0), "C05.sni.empty_content_is_empty_list");
});
content!(c05_content_sni_8, 0, 8, 7, |d, x| {
    let ll = be16(d, 0) as usize;
    if ll > 6 {
        vassert!(x.is_none(), "C05.sni.list_length_exceeds_extension.no_value");
        vcover!(true, "C05.sni.cover.list_overruns");
    } else if ll == 6 {
        // entries must tile the list: (t, len, name)
        let l1 = be16(d, 3) as usize;
        if l1 == 3 {
            vassert!(matches!(x, Some(X::SNI(v)) if v.len() == 1 && (v[0].0).0 == d[2] && is_sub(d, v[0].1, 5, 3)), "C05.sni.single_name_exact");
            vcover!(true, "C05.sni.cover.one_name");
        } else if l1 == 0 && be16(d, 6) == 0 {
            vassert!(matches!(x, Some(X::SNI(v)) if v.len() == 2 && (v[0].0).0 == d[2] && v[0].1.len() == 0 && (v[1].0).0 == d[5] && v[1].1.len() == 0),
                     "C05.sni.two_names_exact_in_order");
            vcover!(true, "C05.sni.cover.two_names");
        }
    }
});
content!(c05_content_max_fragment_length_1, 1, 1, 5, |d, x| {
    vassert!(matches!(x, Some(X::MaxFragmentLength(v)) if *v == d[0]), "C05.max_fragment_length.value_exact");
});
content!(c05_content_max_fragment_length_0, 1, 0, 5, |d, x| {
    vassert!(x.is_none(), "C05.max_fragment_length.empty.no_value");
});
content!(c05_content_status_request_0, 5, 0, 5, |d, x| {
    vassert!(matches!(x, Some(X::StatusRequest(None))), "C05.status_request.empty_is_none");
});
content!(c05_content_status_request_4, 5, 4, 5, |d, x| {
    vassert!(matches!(x, Some(X::StatusRequest(Some((t, r)))) if t.0 == d[0] && is_sub(d, r, 1, 3)), "C05.status_request.type_and_request_exact");
});
content!(c05_content_groups_6, 10, 6, 7, |d, x| {
    let ll = be16(d, 0) as usize;
    if ll > 4 || ll % 2 == 1 {
        vassert!(x.is_none(), "C05.groups.overlong_or_odd_list.no_value");
        vcover!(ll == 3, "C05.groups.cover.odd");
    } else if ll == 4 {
        vassert!(matches!(x, Some(X::EllipticCurves(v)) if v.len() == 2 && v[0].0 == be16(d, 2) && v[1].0 == be16(d, 4)), "C05.groups.groups_exact_in_order");
        vcover!(true, "C05.groups.cover.two_groups");
    } else if ll == 0 {
        vassert!(matches!(x, Some(X::EllipticCurves(v)) if v.len() == 0), "C05.groups.empty_list");
    }
});
content!(c05_content_point_formats_3, 11, 3, 5, |d, x| {
    let l = d[0] as usize;
    if l > 2 {
        vassert!(x.is_none(), "C05.point_formats.overlong.no_value");
    } else {
        vassert!(matches!(x, Some(X::EcPointFormats(v)) if is_sub(d, v, 1, l)), "C05.point_formats.formats_exact");
        vcover!(l == 2, "C05.point_formats.cover.two");
    }
});
content!(c05_content_signature_algorithms_6, 13, 6, 7, |d, x| {
    let ll = be16(d, 0) as usize;
    if ll > 4 {
        vassert!(x.is_none(), "C05.signature_algorithms.overlong.no_value");
    } else if ll == 4 {
        vassert!(matches!(x, Some(X::SignatureAlgorithms(v)) if v.len() == 2 && v[0] == be16(d, 2) && v[1] == be16(d, 4)), "C05.signature_algorithms.schemes_exact_in_order");
        vcover!(true, "C05.signature_algorithms.cover.two");
    }
});
content!(c05_content_heartbeat_1, 15, 1, 5, |d, x| {
    vassert!(matches!(x, Some(X::Heartbeat(m)) if *m == d[0]), "C05.heartbeat.mode_exact");
});
content!(c05_content_alpn_7, 16, 7, 8, |d, x| {
    let ll = be16(d, 0) as usize;
    if ll > 5 {
        vassert!(x.is_none(), "C05.alpn.overlong.no_value");
    } else if ll == 5 {
        let l1 = d[2] as usize;
        if l1 == 4 {
            vassert!(matches!(x, Some(X::ALPN(v)) if v.len() == 1 && is_sub(d, v[0], 3, 4)), "C05.alpn.single_protocol_exact");
        } else if l1 == 1 && d[4] == 2 {
            vassert!(matches!(x, Some(X::ALPN(v)) if v.len() == 2 && is_sub(d, v[0], 3, 1) && is_sub(d, v[1], 5, 2)), "C05.alpn.two_protocols_exact_in_order");
            vcover!(true, "C05.alpn.cover.two");
        }
    }
});
content!(c05_content_sct_0, 18, 0, 5, |d, x| {
    vassert!(matches!(x, Some(X::SignedCertificateTimestamp(None))), "C05.sct.empty_is_none");
});
content!(c05_content_sct_5, 18, 5, 5, |d, x| {
    if be16(d, 0) == 3 {
        vassert!(matches!(x, Some(X::SignedCertificateTimestamp(Some(s))) if is_sub(d, s, 2, 3)), "C05.sct.list_bytes_exact");
        vcover!(true, "C05.sct.cover.some");
    }
});
content!(c05_content_padding_3, 21, 3, 5, |d, x| {
    vassert!(matches!(x, Some(X::Padding(p)) if is_sub(d, p, 0, 3)), "C05.padding.bytes_exact");
});
content!(c05_content_etm_0, 22, 0, 5, |d, x| { vassert!(matches!(x, Some(X::EncryptThenMac)), "C05.encrypt_then_mac.empty_accepted"); });
content!(c05_content_etm_1, 22, 1, 5, |d, x| { vassert!(x.is_none(), "C05.encrypt_then_mac.with_data.rejected"); });
content!(c05_content_ems_0, 23, 0, 5, |d, x| { vassert!(matches!(x, Some(X::ExtendedMasterSecret)), "C05.extended_master_secret.empty_accepted"); });
content!(c05_content_ems_2, 23, 2, 5, |d, x| { vassert!(x.is_none(), "C05.extended_master_secret.with_data.rejected"); });
content!(c05_content_pha_0, 49, 0, 5, |d, x| { vassert!(matches!(x, Some(X::PostHandshakeAuth)), "C05.post_handshake_auth.empty_accepted"); });
content!(c05_content_pha_1, 49, 1, 5, |d, x| { vassert!(x.is_none(), "C05.post_handshake_auth.with_data.rejected"); });
content!(c05_content_npn_0, 13172, 0, 5, |d, x| { vassert!(matches!(x, Some(X::NextProtocolNegotiation)), "C05.npn.empty_accepted"); });
content!(c05_content_npn_1, 13172, 1, 5, |d, x| { vassert!(x.is_none(), "C05.npn.with_data.rejected"); });
content!(c05_content_record_size_limit_2, 28, 2, 5, |d, x| {
    vassert!(matches!(x, Some(X::RecordSizeLimit(v)) if *v == be16(d, 0)), "C05.record_size_limit.value_exact");
});
content!(c05_content_session_ticket_3, 35, 3, 5, |d, x| {
    vassert!(matches!(x, Some(X::SessionTicket(p)) if is_sub(d, p, 0, 3)), "C05.session_ticket.bytes_exact");
});
content!(c05_content_key_share_old_3, 40, 3, 5, |d, x| {
    vassert!(matches!(x, Some(X::KeyShareOld(p)) if is_sub(d, p, 0, 3)), "C05.key_share_old.bytes_exact");
});
content!(c05_content_key_share_3, 51, 3, 5, |d, x| {
    vassert!(matches!(x, Some(X::KeyShare(p)) if is_sub(d, p, 0, 3)), "C05.key_share.bytes_exact");
});
content!(c05_content_pre_shared_key_3, 41, 3, 5, |d, x| {
    vassert!(matches!(x, Some(X::PreSharedKey(p)) if is_sub(d, p, 0, 3)), "C05.pre_shared_key.bytes_exact");
});
content!(c05_content_cookie_3, 44, 3, 5, |d, x| {
    vassert!(matches!(x, Some(X::Cookie(p)) if is_sub(d, p, 0, 3)), "C05.cookie.bytes_exact");
});
content!(c05_content_early_data_0, 42, 0, 6, |d, x| { vassert!(matches!(x, Some(X::EarlyData(None))), "C05.early_data.empty_is_none"); });
content!(c05_content_early_data_4, 42, 4, 6, |d, x| {
    vassert!(matches!(x, Some(X::EarlyData(Some(v))) if *v == be32(d, 0)), "C05.early_data.max_size_exact");
});
content!(c05_content_early_data_2, 42, 2, 6, |d, x| { vassert!(x.is_none(), "C05.early_data.cut_short.no_value"); });
content!(c05_content_supported_versions_2, 43, 2, 6, |d, x| {
    vassert!(matches!(x, Some(X::SupportedVersions(v)) if v.len() == 1 && v[0].0 == be16(d, 0)), "C05.supported_versions.server_form_selected_version_exact");
});
content!(c05_content_supported_versions_5, 43, 5, 6, |d, x| {
    if d[0] == 4 {
        vassert!(matches!(x, Some(X::SupportedVersions(v)) if v.len() == 2 && v[0].0 == be16(d, 1) && v[1].0 == be16(d, 3)), "C05.supported_versions.client_form_versions_exact_in_order");
        vcover!(true, "C05.supported_versions.cover.client_form");
    }
});
content!(c05_content_supported_versions_0, 43, 0, 6, |d, x| { vassert!(x.is_none(), "C05.supported_versions.empty.no_value"); });
content!(c05_content_psk_modes_3, 45, 3, 6, |d, x| {
    let l = d[0] as usize;
    if l > 2 {
        vassert!(x.is_none(), "C05.psk_modes.overlong.no_value");
    } else {
        vassert!(matches!(x, Some(X::PskExchangeModes(v)) if v.len() == l && (l < 1 || v[0] == d[1]) && (l < 2 || v[1] == d[2])), "C05.psk_modes.modes_exact_in_order");
        vcover!(l == 2, "C05.psk_modes.cover.two");
    }
});
content!(c05_content_oid_filters_7, 48, 7, 7, |d, x| {
    let ll = be16(d, 0) as usize;
    if ll > 5 {
        vassert!(x.is_none(), "C05.oid_filters.overlong.no_value");
    } else if ll == 5 && d[2] == 1 && be16(d, 4) == 1 {
        vassert!(matches!(x, Some(X::OidFilters(v)) if v.len() == 1 && is_sub(d, v[0].cert_ext_oid, 3, 1) && is_sub(d, v[0].cert_ext_val, 6, 1)), "C05.oid_filters.filter_exact");
        vcover!(true, "C05.oid_filters.cover.one");
    }
});
content!(c05_content_renegotiation_info_3, 0xff01, 3, 6, |d, x| {
    let l = d[0] as usize;
    if l > 2 {
        vassert!(x.is_none(), "C05.renegotiation_info.overlong.no_value");
    } else {
        vassert!(matches!(x, Some(X::RenegotiationInfo(v)) if is_sub(d, v, 1, l)), "C05.renegotiation_info.bytes_exact");
    }
});
content!(c05_content_esni_12, 0xffce, 12, 6, |d, x| {
    let mut rd = Rd::new(d);
    let cs = rd.u16();
    let g = rd.u16();
    let ks = rd.lp16();
    let dg = rd.lp16();
    let sni = rd.lp16();
    if rd.short {
        vassert!(x.is_none(), "C05.esni.field_overruns_extension.no_value");
        vcover!(true, "C05.esni.cover.overrun");
    } else {
        vassert!(matches!(x, Some(X::EncryptedServerName { ciphersuite, group, key_share, record_digest, encrypted_sni })
                          if ciphersuite.0 == cs && group.0 == g && span_is(d, key_share, ks) && span_is(d, record_digest, dg) && span_is(d, encrypted_sni, sni)),
                 "C05.esni.fields_exact");
        vcover!(ks.1 > 0 && sni.1 > 0, "C05.esni.cover.fields_nonempty");
    }
});

// ------------------------------------------------------------------------------------------------
// (4) List parsers: the single-extension parser replaced by an opaque (type, length, data) marker.

fn stub_ext<'a>(i: &'a [u8]) -> IResult<&'a [u8], X<'a>> {
    if i.len() < 4 {
        return Err(Err::Incomplete(Needed::Unknown));
    }
    let l = be16(i, 2) as usize;
    if i.len() - 4 < l {
        return Err(Err::Incomplete(Needed::Unknown));
    }
    Ok((&i[4 + l..], X::Unknown(TlsExtensionType(be16(i, 0)), &i[4..4 + l])))
}

fn list_check(r: &IResult<&[u8], Vec<X>>, b: &[u8]) {
    vassert!(r.is_ok(), "C05.list.never_fails");
    if let Ok((rem, v)) = r {
        let n = b.len();
        let mut pos = 0;
        let mut k = 0;
        while pos + 4 <= n {
            let l = be16(b, pos + 2) as usize;
            if l > n - pos - 4 {
                break;
            }
            vassert!(k < v.len(), "C05.list.one_element_per_extension");
            if k < v.len() {
                vassert!(matches!(&v[k], X::Unknown(t, d) if t.0 == be16(b, pos) && is_sub(b, d, pos + 4, l)), "C05.list.elements_in_wire_order_with_exact_data");
            }
            k += 1;
            pos += 4 + l;
        }
        vassert!(v.len() == k, "C05.list.length_exceeding_block_never_yields_a_value");
        vassert!(is_sub(b, rem, pos, n - pos), "C05.list.consumes_all_wellformed_extensions");
        vcover!(k == 2 && pos == n, "C05.list.cover.two_extensions_whole_block");
        vcover!(k == 1 && pos < n, "C05.list.cover.second_extension_exceeds_block");
    }
}

macro_rules! list_harness {
    ($name:ident, $f:path, $single:path) => {
        #[kani::proof]
        #[kani::unwind(5)]
        #[kani::stub($single, stub_ext)]
        fn $name() {
            let buf: [u8; 10] = kani::any();
            let n: usize = kani::any();
            kani::assume(n <= 10);
            let b = &buf[..n];
            let r = ManuallyDrop::new($f(b));
            list_check(&r, b);
        }
    };
}
list_harness!(c05_list_generic, tp::parse_tls_extensions, tp::parse_tls_extension);
list_harness!(c05_list_client, tp::parse_tls_client_hello_extensions, tp::parse_tls_client_hello_extension);
list_harness!(c05_list_server, tp::parse_tls_server_hello_extensions, tp::parse_tls_server_hello_extension);

/// Derived tag of every variant equals its IANA type (GREASE values map to the single Grease tag).
#[kani::proof]
#[kani::unwind(4)]
fn c05_derived_tag() {
    let t: u16 = kani::any();
    let d = [0u8; 1];
    vassert!(TlsExtensionType::from(&X::Grease(t, &d)).0 == 0xfafa, "C05.tag.every_grease_value_maps_to_the_Grease_tag");
    vassert!(TlsExtensionType::from(&X::Unknown(TlsExtensionType(t), &d)).0 == t, "C05.tag.unknown_keeps_wire_type");
    vassert!(TlsExtensionType::from(&X::Padding(&d)).0 == 21 && TlsExtensionType::from(&X::EncryptThenMac).0 == 22
             && TlsExtensionType::from(&X::ExtendedMasterSecret).0 == 23 && TlsExtensionType::from(&X::KeyShareOld(&d)).0 == 40
             && TlsExtensionType::from(&X::KeyShare(&d)).0 == 51 && TlsExtensionType::from(&X::PreSharedKey(&d)).0 == 41
             && TlsExtensionType::from(&X::Cookie(&d)).0 == 44 && TlsExtensionType::from(&X::SessionTicket(&d)).0 == 35
             && TlsExtensionType::from(&X::RecordSizeLimit(1)).0 == 28 && TlsExtensionType::from(&X::Heartbeat(1)).0 == 15
             && TlsExtensionType::from(&X::MaxFragmentLength(1)).0 == 1 && TlsExtensionType::from(&X::EcPointFormats(&d)).0 == 11
             && TlsExtensionType::from(&X::PostHandshakeAuth).0 == 49 && TlsExtensionType::from(&X::NextProtocolNegotiation).0 == 13172
             && TlsExtensionType::from(&X::RenegotiationInfo(&d)).0 == 0xff01 && TlsExtensionType::from(&X::EarlyData(None)).0 == 42
             && TlsExtensionType::from(&X::StatusRequest(None)).0 == 5 && TlsExtensionType::from(&X::SignedCertificateTimestamp(None)).0 == 18,
             "C05.tag.variant_tags_are_iana_types");
    vcover!(t == 0x0a0a, "C05.tag.cover.grease");
}

/// Vacuity guard (thorough tier): the same harness body followed by a false assertion must FAIL.
#[cfg(feature = "thorough")]
#[kani::proof]
#[kani::unwind(4)]
fn c05_false_twin_dispatch_native() {
    dispatch_twin(Which::Generic);
    vassert!(false, "C05.false_twin");
}
