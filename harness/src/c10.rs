//! C10 — DTLS records and handshake fragments decode per RFC 6347.
use crate::oracle::*;
use crate::util::*;
use crate::{vassert, vcover};
use alloc::vec::Vec;
use core::mem::ManuallyDrop;
use tls_parser as tp;
use tp::nom::error::ErrorKind;
use tp::nom::{Err, IResult, Needed};
use tp::{DTLSMessage, DTLSMessageHandshakeBody};

/// 13-byte record header: every field exact, Incomplete iff fewer than 13 bytes.
#[kani::proof]
#[kani::unwind(10)]
fn c10_record_header() {
    let buf: [u8; 15] = kani::any();
    let n: usize = kani::any();
    kani::assume(n <= 15);
    let b = &buf[..n];
    let r = tp::parse_dtls_record_header(b);
    if n < 13 {
        vassert!(class(&r) == Class::Incomplete, "C10.header.short.incomplete");
    } else {
        vassert!(r.is_ok(), "C10.header.ok");
        if let Ok((rem, h)) = &r {
            vassert!(h.content_type.0 == b[0], "C10.header.type");
            vassert!(h.version.0 == be16(b, 1), "C10.header.version");
            vassert!(h.epoch == be16(b, 3), "C10.header.epoch");
            let seq = ((be16(b, 5) as u64) << 32) | be32(b, 7) as u64;
            vassert!(h.sequence_number == seq, "C10.header.sequence_number_48bit");
            vassert!(h.length == be16(b, 11), "C10.header.length");
            vassert!(is_sub(b, rem, 13, n - 13), "C10.header.remainder");
            vcover!(h.epoch == 0xffff && h.sequence_number == 0, "C10.header.cover.epoch_not_mixed_into_sequence");
            vcover!(h.sequence_number == 0xffff_ffff_ffff, "C10.header.cover.max_sequence");
        }
    }
}

// ---- record framing with the content dispatcher replaced by a marker stub
static mut SEEN_CALLS: u32 = 0;
static mut SEEN_OFF_OK: bool = false;
static mut SEEN_LEN: usize = 0;
static mut SEEN_HDR: (u8, u16, u16, u64, u16) = (0, 0, 0, 0, 0);
static mut BASE: usize = 0;
static mut STUB_FAILS: bool = false;

fn stub_dtls_record_with_header<'i>(
    i: &'i [u8],
    hdr: &tp::DTLSRecordHeader,
) -> IResult<&'i [u8], Vec<DTLSMessage<'i>>> {
    unsafe {
        SEEN_CALLS += 1;
        SEEN_OFF_OK = (i.as_ptr() as usize) == BASE + 13;
        SEEN_LEN = i.len();
        SEEN_HDR = (hdr.content_type.0, hdr.version.0, hdr.epoch, hdr.sequence_number, hdr.length);
        if STUB_FAILS {
            return Err(Err::Error(tp::nom::error::Error::new(i, ErrorKind::Tag)));
        }
    }
    Ok((i, Vec::new()))
}

macro_rules! record_wiring {
    ($name:ident, $n:expr, $buf:expr, $unw:expr) => {
        #[kani::proof]
        #[kani::unwind($unw)]
        #[kani::stub(tp::parse_dtls_record_with_header, stub_dtls_record_with_header)]
        fn $name() {
            let buf: [u8; $n] = $buf;
            let n: usize = kani::any();
            kani::assume(n <= $n);
            let b = &buf[..n];
            let fails: bool = kani::any();
            unsafe {
                BASE = b.as_ptr() as usize;
                STUB_FAILS = fails;
                SEEN_CALLS = 0;
            }
            let r = ManuallyDrop::new(tp::parse_dtls_plaintext_record(b));
            let calls = unsafe { SEEN_CALLS };
            vassert!(class(&r) != Class::Failure, "C10.record.never_returns_Failure");
            match ref_frame(b, 13) {
                Frame::ShortHeader => {
                    vassert!(class(&r) == Class::Incomplete, "C10.record.short_header.incomplete");
                    vassert!(calls == 0, "C10.record.short_header.content_parser_not_run");
                }
                Frame::TooLarge => {
                    vassert!(err_kind(&r) == Some(ErrorKind::TooLarge) && class(&r) == Class::Error, "C10.record.too_large.rejected");
                    vassert!(calls == 0, "C10.record.too_large.content_parser_not_run");
                    vcover!(true, "C10.record.cover.too_large");
                }
                Frame::Short { missing } => {
                    vassert!(class(&r) == Class::Incomplete, "C10.record.short.incomplete");
                    vassert!(needed(&r) == Some(missing), "C10.record.short.needed_exact");
                    vassert!(calls == 0, "C10.record.short.content_parser_not_run");
                    vcover!(missing > 1, "C10.record.cover.short");
                }
                Frame::Ok { len } => {
                    vassert!(calls == 1, "C10.record.ok.content_parser_run_once");
                    let seq = ((be16(b, 5) as u64) << 32) | be32(b, 7) as u64;
                    unsafe {
                        vassert!(SEEN_OFF_OK && SEEN_LEN == len, "C10.record.ok.payload_isolated_exactly");
                        vassert!(SEEN_HDR == (b[0], be16(b, 1), be16(b, 3), seq, len as u16), "C10.record.ok.header_passed_verbatim");
                    }
                    if fails {
                        vassert!(class(&r) == Class::Error, "C10.record.ok.content_error_propagates_as_error");
                    } else {
                        vassert!(r.is_ok(), "C10.record.ok.accepted");
                        if let Ok((rem, p)) = &*r {
                            vassert!(p.header.content_type.0 == b[0] && p.header.version.0 == be16(b, 1)
                                     && p.header.epoch == be16(b, 3) && p.header.sequence_number == seq
                                     && p.header.length as usize == len, "C10.record.ok.header_exact");
                            vassert!(is_sub(b, rem, 13 + len, n - 13 - len), "C10.record.ok.remainder_exact");
                            vcover!(len > 0 && rem.len() > 0, "C10.record.cover.ok_payload_and_rest");
                            vcover!(len == 16_640, "C10.record.cover.ok_at_cap");
                        }
                    }
                }
            }
        }
    };
}
record_wiring!(c10_record_wiring_small, 18, kani::any(), 10);
record_wiring!(c10_record_wiring_cap, 16_660, {
    let mut a = [0u8; 16_660];
    let h: [u8; 13] = kani::any();
    let mut k = 0;
    while k < 13 {
        a[k] = h[k];
        k += 1;
    }
    a
}, 15);

// ---- DTLS handshake message: 12-byte header arithmetic, fragment predicate, dispatch

/// Reference view of the 12-byte handshake header.
struct HsHdr {
    ty: u8,
    length: u32,
    seq: u16,
    off: u32,
    flen: u32,
}
fn ref_hs_hdr(b: &[u8]) -> HsHdr {
    HsHdr { ty: b[0], length: be24(b, 1), seq: be16(b, 4), off: be24(b, 6), flen: be24(b, 9) }
}

fn check_hs_header(m: &tp::DTLSMessageHandshake, h: &HsHdr) {
    vassert!(m.msg_type.0 == h.ty, "C10.hs.msg_type_verbatim");
    vassert!(m.length == h.length, "C10.hs.length_verbatim");
    vassert!(m.message_seq == h.seq, "C10.hs.message_seq_verbatim");
    vassert!(m.fragment_offset == h.off, "C10.hs.fragment_offset_verbatim");
    vassert!(m.fragment_length == h.flen, "C10.hs.fragment_length_verbatim");
}

/// Message type concrete, total input length concrete, every header field symbolic.
macro_rules! hs_simple {
    ($name:ident, $ty:expr, $len:expr, $unw:expr, |$b:ident, $h:ident, $body:ident| $chk:block) => {
        #[kani::proof]
        #[kani::unwind($unw)]
        fn $name() {
            const L: usize = $len;
            let mut buf: [u8; L] = kani::any();
            buf[0] = $ty;
            let $b = &buf[..];
            let r = ManuallyDrop::new(tp::parse_dtls_message_handshake($b));
            let $h = ref_hs_hdr($b);
            if ($h.flen as usize) > L - 12 {
                vassert!(class(&r) == Class::Incomplete, "C10.hs.fragment_cut_short.incomplete");
                vcover!(true, "C10.hs.cover.cut_short");
                return;
            }
            let end = 12 + $h.flen as usize;
            let is_frag = $h.off > 0 || $h.flen < $h.length;
            if is_frag {
                vassert!(r.is_ok(), "C10.hs.fragment.accepted");
                if let Ok((rem, m)) = &*r {
                    vassert!(m.is_fragment(), "C10.hs.fragment.is_fragment_true");
                    match m {
                        DTLSMessage::Handshake(hm) => {
                            check_hs_header(hm, &$h);
                            match &hm.body {
                                DTLSMessageHandshakeBody::Fragment(f) => {
                                    vassert!(is_sub($b, f, 12, $h.flen as usize), "C10.hs.fragment.exactly_fragment_length_bytes");
                                }
                                _ => vassert!(false, "C10.hs.fragment.body_is_opaque_fragment"),
                            }
                        }
                        _ => vassert!(false, "C10.hs.fragment.is_handshake"),
                    }
                    vassert!(is_sub($b, rem, end, L - end), "C10.hs.fragment.remainder_exact");
                    vcover!($h.off > 0, "C10.hs.cover.fragment_by_offset");
                    vcover!($h.off == 0 && $h.flen > 0, "C10.hs.cover.fragment_by_short_length");
                }
            } else {
                if let Ok((rem, m)) = &*r {
                    vassert!(!m.is_fragment(), "C10.hs.whole.is_fragment_false");
                    vassert!(is_sub($b, rem, end, L - end), "C10.hs.whole.remainder_exact");
                    if let DTLSMessage::Handshake(hm) = m {
                        check_hs_header(hm, &$h);
                    }
                }
                let res: Option<&DTLSMessageHandshakeBody> = match &*r {
                    Ok((_, DTLSMessage::Handshake(hm))) => Some(&hm.body),
                    Ok(_) => {
                        vassert!(false, "C10.hs.whole.is_handshake");
                        None
                    }
                    Err(_) => None,
                };
                let $body = res;
                $chk
            }
        }
    };
}

hs_simple!(c10_hs_serverdone, 14, 16, 6, |b, h, body| {
    // body is exactly `length` bytes (== fragment_length bytes when not a fragment and well-formed)
    if h.flen == h.length {
        vassert!(body.is_some(), "C10.hs.serverdone.accepted");
        match body {
            Some(DTLSMessageHandshakeBody::ServerDone(d)) => {
                vassert!(is_sub(b, d, 12, h.length as usize), "C10.hs.serverdone.body_exact");
                vcover!(h.length > 0, "C10.hs.cover.serverdone_nonempty");
                vcover!(h.length == 0, "C10.hs.cover.serverdone_empty");
            }
            Some(_) => vassert!(false, "C10.hs.serverdone.variant"),
            None => {}
        }
    }
});

hs_simple!(c10_hs_clientkeyexchange, 16, 16, 6, |b, h, body| {
    if h.flen == h.length {
        vassert!(body.is_some(), "C10.hs.cke.accepted");
        match body {
            Some(DTLSMessageHandshakeBody::ClientKeyExchange(tp::TlsClientKeyExchangeContents::Unknown(d))) => {
                vassert!(is_sub(b, d, 12, h.length as usize), "C10.hs.cke.body_exact");
                vcover!(h.length > 1, "C10.hs.cover.cke_nonempty");
            }
            Some(_) => vassert!(false, "C10.hs.cke.variant"),
            None => {}
        }
    }
});

hs_simple!(c10_hs_hello_verify_request, 3, 18, 6, |b, h, body| {
    // server_version u16, cookie<0..255>
    let bl = h.flen as usize;
    let mut rd = Rd { b: &b[..12 + bl], pos: 12, short: false };
    let ver = rd.u16();
    let cookie = rd.lp8();
    if rd.short {
        vassert!(body.is_none(), "C10.hs.hvr.cut_off.no_value");
        vcover!(bl >= 3, "C10.hs.cover.hvr_cookie_overruns_body");
    } else {
        vassert!(body.is_some(), "C10.hs.hvr.accepted");
        match body {
            Some(DTLSMessageHandshakeBody::HelloVerifyRequest(v)) => {
                vassert!(v.server_version.0 == ver, "C10.hs.hvr.version_exact");
                vassert!(span_is(b, v.cookie, cookie), "C10.hs.hvr.cookie_exact");
                vcover!(cookie.1 > 1, "C10.hs.cover.hvr_cookie_nonempty");
            }
            Some(_) => vassert!(false, "C10.hs.hvr.variant"),
            None => {}
        }
    }
});

/// Unsupported handshake types are rejected when not fragmented (and returned as opaque fragments otherwise).
macro_rules! hs_unsupported {
    ($name:ident, $ty:expr) => {
        hs_simple!($name, $ty, 15, 6, |b, h, body| {
            vassert!(body.is_none(), "C10.hs.unsupported_type.rejected");
            vcover!(true, "C10.hs.cover.unsupported_type_rejected");
        });
    };
}
hs_unsupported!(c10_hs_unsupported_00, 0);
hs_unsupported!(c10_hs_unsupported_04, 4);
hs_unsupported!(c10_hs_unsupported_0c, 12);
hs_unsupported!(c10_hs_unsupported_14, 20);
hs_unsupported!(c10_hs_unsupported_ff, 255);

// ---- bodies that need more bytes: header concrete-shaped (offset 0, fragment_length = length = body size)

macro_rules! hs_body {
    ($name:ident, $ty:expr, $bl:expr, $unw:expr, |$b:ident, $body:ident| $chk:block) => {
        #[kani::proof]
        #[kani::unwind($unw)]
        fn $name() {
            const BL: usize = $bl;
            let mut buf: [u8; 12 + BL + 1] = kani::any();
            buf[0] = $ty;
            buf[1] = 0; buf[2] = 0; buf[3] = BL as u8;   // length
            buf[6] = 0; buf[7] = 0; buf[8] = 0;           // fragment_offset
            buf[9] = 0; buf[10] = 0; buf[11] = BL as u8;  // fragment_length
            let $b = &buf[..];
            let r = ManuallyDrop::new(tp::parse_dtls_message_handshake($b));
            if let Ok((rem, m)) = &*r {
                vassert!(!m.is_fragment(), "C10.body.is_fragment_false");
                vassert!(is_sub($b, rem, 12 + BL, 1), "C10.body.remainder_exact");
                if let DTLSMessage::Handshake(hm) = m {
                    check_hs_header(hm, &ref_hs_hdr($b));
                }
            }
            let $body: Option<&DTLSMessageHandshakeBody> = match &*r {
                Ok((_, DTLSMessage::Handshake(hm))) => Some(&hm.body),
                _ => None,
            };
            $chk
        }
    };
}

fn check_dtls_ch(b: &[u8], bl: usize, body: Option<&DTLSMessageHandshakeBody>, elems: bool) {
    let bb = &b[12..12 + bl];
    let c = ref_client_hello(bb, true);
    match c.v {
        V::Reject => {
            vassert!(body.is_none(), "C10.ch.invalid.rejected");
            vcover!(bb[34] > 32, "C10.ch.cover.session_id_too_long");
        }
        V::Accept | V::DontCare => {
            if c.v == V::Accept {
                vassert!(body.is_some(), "C10.ch.wellformed.accepted");
            }
            match body {
                Some(DTLSMessageHandshakeBody::ClientHello(ch)) => {
                    vassert!(ch.version.0 == c.version, "C10.ch.version_exact");
                    vassert!(span_is(bb, ch.random, c.random), "C10.ch.random_exact");
                    match (ch.session_id, c.sid) {
                        (Some(s), Some(sp)) => vassert!(span_is(bb, s, sp), "C10.ch.session_id_exact"),
                        (None, None) => {}
                        _ => vassert!(false, "C10.ch.session_id_presence"),
                    }
                    vassert!(span_is(bb, ch.cookie, c.cookie), "C10.ch.cookie_exact");
                    vassert!(ch.ciphers.len() * 2 == c.ciphers.1, "C10.ch.cipher_count");
                    vassert!(ch.comp.len() == c.comp.1, "C10.ch.compression_count");
                    if elems {
                        let mut k = 0;
                        while k < ch.ciphers.len() {
                            vassert!(ch.ciphers[k].0 == be16(bb, c.ciphers.0 + 2 * k), "C10.ch.cipher_exact_in_order");
                            k += 1;
                        }
                        let mut k = 0;
                        while k < ch.comp.len() {
                            vassert!(ch.comp[k].0 == bb[c.comp.0 + k], "C10.ch.compression_exact_in_order");
                            k += 1;
                        }
                    }
                    if c.v == V::Accept {
                        match (ch.ext, c.ext) {
                            (Some(s), Some(sp)) => vassert!(span_is(bb, s, sp), "C10.ch.extensions_exact"),
                            (None, None) => {}
                            _ => vassert!(false, "C10.ch.extensions_presence"),
                        }
                    }
                    vcover!(c.v == V::Accept, "C10.ch.cover.accepted");
                    vcover!(c.v == V::Accept && c.cookie.1 > 0 && ch.ciphers.len() >= 1, "C10.ch.cover.cookie_and_cipher");
                }
                Some(_) => vassert!(false, "C10.ch.variant"),
                None => {}
            }
        }
    }
}

/// A 33-byte cookie (DTLS 1.2 allows up to 255): concrete shape, contents symbolic.
#[kani::proof]
#[kani::unwind(6)]
fn c10_body_client_hello_cookie33() {
    const BL: usize = 2 + 32 + 1 + 1 + 33 + 2 + 1;
    let mut buf: [u8; 12 + BL + 1] = kani::any();
    buf[0] = 1;
    buf[1] = 0; buf[2] = 0; buf[3] = BL as u8;
    buf[6] = 0; buf[7] = 0; buf[8] = 0;
    buf[9] = 0; buf[10] = 0; buf[11] = BL as u8;
    buf[12 + 34] = 0;       // session id length
    buf[12 + 35] = 33;      // cookie length
    buf[12 + 69] = 0;
    buf[12 + 70] = 0;       // cipher list length
    buf[12 + 71] = 0;       // compression list length
    let b = &buf[..];
    let r = ManuallyDrop::new(tp::parse_dtls_message_handshake(b));
    vassert!(r.is_ok(), "C10.chcookie.wellformed.accepted");
    if let Ok((_, DTLSMessage::Handshake(hm))) = &*r {
        match &hm.body {
            DTLSMessageHandshakeBody::ClientHello(ch) => vassert!(is_sub(b, ch.cookie, 12 + 36, 33), "C10.ch.cookie_exact"),
            _ => vassert!(false, "C10.ch.variant"),
        }
        vcover!(true, "C10.chcookie.cover.ok");
    }
}

hs_body!(c10_body_client_hello_39, 1, 39, 6, |b, body| { check_dtls_ch(b, 39, body, false); });
hs_body!(c10_body_client_hello_44, 1, 44, 7, |b, body| { check_dtls_ch(b, 44, body, false); });

/// Concrete shape: no session id, 2-byte cookie, 2 ciphers, 1 compression, no extensions; contents symbolic.
#[kani::proof]
#[kani::unwind(6)]
fn c10_body_client_hello_shape() {
    const BL: usize = 2 + 32 + 1 + 1 + 2 + 2 + 4 + 1 + 1;
    let mut buf: [u8; 12 + BL + 1] = kani::any();
    buf[0] = 1;
    buf[1] = 0; buf[2] = 0; buf[3] = BL as u8;
    buf[6] = 0; buf[7] = 0; buf[8] = 0;
    buf[9] = 0; buf[10] = 0; buf[11] = BL as u8;
    buf[12 + 34] = 0;      // session id length
    buf[12 + 35] = 2;      // cookie length
    buf[12 + 38] = 0;
    buf[12 + 39] = 4;      // cipher list length
    buf[12 + 44] = 1;      // compression list length
    let b = &buf[..];
    let r = ManuallyDrop::new(tp::parse_dtls_message_handshake(b));
    vassert!(r.is_ok(), "C10.chshape.wellformed.accepted");
    let body: Option<&DTLSMessageHandshakeBody> = match &*r {
        Ok((_, DTLSMessage::Handshake(hm))) => Some(&hm.body),
        _ => None,
    };
    check_dtls_ch(b, BL, body, true);
    if let Some(DTLSMessageHandshakeBody::ClientHello(ch)) = body {
        vassert!(ch.ciphers.len() == 2 && ch.comp.len() == 1 && ch.cookie.len() == 2, "C10.chshape.list_lengths");
    }
}

fn check_dtls_sh(b: &[u8], bl: usize, body: Option<&DTLSMessageHandshakeBody>) {
    let bb = &b[12..12 + bl];
    let c = ref_server_hello12(bb, true);
    match c.v {
        V::Reject => vassert!(body.is_none(), "C10.sh.invalid.rejected"),
        _ => {
            if c.v == V::Accept {
                vassert!(body.is_some(), "C10.sh.wellformed.accepted");
            }
            match body {
                Some(DTLSMessageHandshakeBody::ServerHello(sh)) => {
                    vassert!(sh.version.0 == c.version, "C10.sh.version_exact");
                    vassert!(span_is(bb, sh.random, c.random), "C10.sh.random_exact");
                    match (sh.session_id, c.sid) {
                        (Some(s), Some(sp)) => vassert!(span_is(bb, s, sp), "C10.sh.session_id_exact"),
                        (None, None) => {}
                        _ => vassert!(false, "C10.sh.session_id_presence"),
                    }
                    vassert!(sh.cipher.0 == c.cipher, "C10.sh.cipher_exact");
                    vassert!(sh.compression.0 == c.comp, "C10.sh.compression_exact");
                    if c.v == V::Accept {
                        match (sh.ext, c.ext) {
                            (Some(s), Some(sp)) => vassert!(span_is(bb, s, sp), "C10.sh.extensions_exact"),
                            (None, None) => {}
                            _ => vassert!(false, "C10.sh.extensions_presence"),
                        }
                    }
                    vcover!(c.v == V::Accept, "C10.sh.cover.accepted");
                    vcover!(c.v == V::Accept && c.sid.is_some(), "C10.sh.cover.with_session_id");
                    vcover!(c.v == V::Accept && c.ext.is_some(), "C10.sh.cover.with_extensions");
                }
                Some(_) => vassert!(false, "C10.sh.variant"),
                None => {}
            }
        }
    }
}
hs_body!(c10_body_server_hello_38, 2, 38, 6, |b, body| { check_dtls_sh(b, 38, body); });
hs_body!(c10_body_server_hello_42, 2, 42, 6, |b, body| { check_dtls_sh(b, 42, body); });

// Certificate: u24 total, then u24-length-prefixed certificates
fn check_dtls_cert(b: &[u8], bl: usize, body: Option<&DTLSMessageHandshakeBody>) {
    let bb = &b[12..12 + bl];
    if bl < 3 || (be24(bb, 0) as usize) > bl - 3 {
        vassert!(body.is_none(), "C10.cert.list_longer_than_body.rejected");
        vcover!(bl >= 3, "C10.cert.cover.list_longer_than_body");
        return;
    }
    let limit = 3 + be24(bb, 0) as usize;
    vassert!(body.is_some(), "C10.cert.contained.accepted");
    match body {
        Some(DTLSMessageHandshakeBody::Certificate(c)) => {
            let mut pos = 3;
            let mut k = 0;
            while pos + 3 <= limit {
                let l = be24(bb, pos) as usize;
                if l > limit - pos - 3 {
                    break;
                }
                vassert!(k < c.cert_chain.len(), "C10.cert.every_certificate_returned");
                if k < c.cert_chain.len() {
                    vassert!(is_sub(bb, c.cert_chain[k].data, pos + 3, l), "C10.cert.certificate_exact_in_order");
                }
                k += 1;
                pos += 3 + l;
            }
            vassert!(c.cert_chain.len() == k, "C10.cert.no_value_for_overrunning_certificate");
            vcover!(k == 2, "C10.cert.cover.two_certificates");
        }
        Some(_) => vassert!(false, "C10.cert.variant"),
        None => {}
    }
}
hs_body!(c10_body_certificate_10, 11, 10, 6, |b, body| { check_dtls_cert(b, 10, body); });

// ---- ChangeCipherSpec and alert records, as in TLS (two-step API; content type concrete)
fn dtls_hdr(ty: u8, n: usize) -> tp::DTLSRecordHeader {
    tp::DTLSRecordHeader { content_type: tp::TlsRecordType(ty), version: tp::TlsVersion(kani::any()), epoch: kani::any(), sequence_number: kani::any(), length: n as u16 }
}

#[kani::proof]
#[kani::unwind(6)]
fn c10_record_ccs() {
    let buf: [u8; 3] = kani::any();
    let n: usize = kani::any();
    kani::assume(n <= 3);
    let p = &buf[..n];
    let h = dtls_hdr(0x14, n);
    let r = ManuallyDrop::new(tp::parse_dtls_record_with_header(p, &h));
    let mut k = 0;
    while k < n && p[k] == 1 {
        k += 1;
    }
    if k == 0 {
        vassert!(r.is_err(), "C10.ccs.empty_or_malformed.rejected");
    } else {
        vassert!(r.is_ok(), "C10.ccs.accepted");
        if let Ok((rem, v)) = &*r {
            vassert!(v.len() == k, "C10.ccs.message_count");
            let mut j = 0;
            while j < v.len() {
                vassert!(matches!(v[j], DTLSMessage::ChangeCipherSpec), "C10.ccs.message_kind");
                j += 1;
            }
            vassert!(is_sub(p, rem, k, n - k), "C10.ccs.remainder_is_undecoded_tail");
            vcover!(k == 2, "C10.ccs.cover.two");
        }
    }
}

#[kani::proof]
#[kani::unwind(6)]
fn c10_record_alert() {
    let buf: [u8; 4] = kani::any();
    let n: usize = kani::any();
    kani::assume(n <= 4);
    let p = &buf[..n];
    let h = dtls_hdr(0x15, n);
    let r = ManuallyDrop::new(tp::parse_dtls_record_with_header(p, &h));
    let k = n / 2;
    if k == 0 {
        vassert!(r.is_err(), "C10.alert.empty_or_cut_short.rejected");
    } else {
        vassert!(r.is_ok(), "C10.alert.accepted");
        if let Ok((rem, v)) = &*r {
            vassert!(v.len() == k, "C10.alert.message_count");
            let mut j = 0;
            while j < v.len() {
                match &v[j] {
                    DTLSMessage::Alert(a) => vassert!(a.severity.0 == p[2 * j] && a.code.0 == p[2 * j + 1], "C10.alert.fields_exact"),
                    _ => vassert!(false, "C10.alert.message_kind"),
                }
                j += 1;
            }
            vassert!(is_sub(p, rem, 2 * k, n - 2 * k), "C10.alert.remainder_is_undecoded_tail");
            vcover!(k == 2, "C10.alert.cover.two");
        }
    }
}

/// Content types the DTLS record parser does not decode are rejected with an error.
macro_rules! record_unknown {
    ($name:ident, $ty:expr) => {
        #[kani::proof]
        #[kani::unwind(4)]
        fn $name() {
            let buf: [u8; 3] = kani::any();
            let n: usize = kani::any();
            kani::assume(n <= 3);
            let p = &buf[..n];
            let h = dtls_hdr($ty, n);
            let r = ManuallyDrop::new(tp::parse_dtls_record_with_header(p, &h));
            vassert!(class(&r) == Class::Error, "C10.record.undecoded_content_type.rejected");
            vcover!(n > 0, "C10.record.cover.unknown_type_nonempty");
        }
    };
}
record_unknown!(c10_record_unknown_00, 0x00);
record_unknown!(c10_record_unknown_19, 0x19);

// ---- dispatch over all 256 handshake types with the six body parsers replaced by markers (rule R3)
static mut D_MARK: u8 = 0xff;
static mut D_OFF_OK: bool = false;
static mut D_LEN: usize = 0;
static mut D_ARG: usize = usize::MAX;
static mut D_CALLS: u32 = 0;
static mut D_BASE: usize = 0;

fn dmark<'a>(id: u8, i: &'a [u8], arg: usize) -> IResult<&'a [u8], DTLSMessageHandshakeBody<'a>> {
    unsafe {
        D_MARK = id;
        D_OFF_OK = (i.as_ptr() as usize) == D_BASE + 12;
        D_LEN = i.len();
        D_ARG = arg;
        D_CALLS += 1;
    }
    Ok((i, DTLSMessageHandshakeBody::ServerDone(i)))
}
fn d_ch(i: &[u8]) -> IResult<&[u8], DTLSMessageHandshakeBody> { dmark(1, i, usize::MAX) }
fn d_hvr(i: &[u8]) -> IResult<&[u8], DTLSMessageHandshakeBody> { dmark(3, i, usize::MAX) }
fn d_sh(i: &[u8]) -> IResult<&[u8], DTLSMessageHandshakeBody> { dmark(2, i, usize::MAX) }
fn d_done(i: &[u8], l: usize) -> IResult<&[u8], DTLSMessageHandshakeBody> { dmark(14, i, l) }
fn d_cke(i: &[u8], l: usize) -> IResult<&[u8], DTLSMessageHandshakeBody> { dmark(16, i, l) }
fn d_cert(i: &[u8]) -> IResult<&[u8], DTLSMessageHandshakeBody> { dmark(11, i, usize::MAX) }

#[kani::proof]
#[kani::unwind(6)]
#[kani::stub(tp::dtls::parse_dtls_client_hello, d_ch)]
#[kani::stub(tp::dtls::parse_dtls_hello_verify_request, d_hvr)]
#[kani::stub(tp::dtls::parse_dtls_handshake_msg_server_hello_tlsv12, d_sh)]
#[kani::stub(tp::dtls::parse_dtls_handshake_msg_serverdone, d_done)]
#[kani::stub(tp::dtls::parse_dtls_handshake_msg_clientkeyexchange, d_cke)]
#[kani::stub(tp::dtls::parse_dtls_handshake_msg_certificate, d_cert)]
fn c10_hs_dispatch_wiring() {
    let buf: [u8; 16] = kani::any();
    let n: usize = kani::any();
    kani::assume(n <= 16);
    let b = &buf[..n];
    unsafe {
        D_BASE = b.as_ptr() as usize;
        D_CALLS = 0;
        D_MARK = 0xff;
    }
    let r = ManuallyDrop::new(tp::parse_dtls_message_handshake(b));
    let calls = unsafe { D_CALLS };
    if n < 12 || (be24(b, 9) as usize) > n - 12 {
        vassert!(class(&r) == Class::Incomplete, "C10.dispatch.truncated.incomplete");
        vassert!(calls == 0, "C10.dispatch.truncated.no_body_parser_run");
        return;
    }
    let h = ref_hs_hdr(b);
    let fl = h.flen as usize;
    let is_frag = h.off > 0 || h.flen < h.length;
    if is_frag {
        vassert!(calls == 0, "C10.dispatch.fragment.no_body_parser_run");
        vassert!(matches!(&*r, Ok((rem, m)) if m.is_fragment() && is_sub(b, rem, 12 + fl, n - 12 - fl)), "C10.dispatch.fragment_returned_opaque");
        vcover!(h.off > 0 && h.flen >= h.length, "C10.dispatch.cover.last_fragment_by_offset");
        return;
    }
    let supported = matches!(h.ty, 1 | 2 | 3 | 11 | 14 | 16);
    if !supported {
        vassert!(class(&r) == Class::Error, "C10.dispatch.unsupported_type.rejected");
        vassert!(calls == 0, "C10.dispatch.unsupported_type.no_body_parser_run");
        vcover!(h.ty == 4, "C10.dispatch.cover.new_session_ticket_unsupported");
        return;
    }
    vassert!(calls == 1, "C10.dispatch.exactly_one_body_parser_run");
    unsafe {
        vassert!(D_MARK == h.ty, "C10.dispatch.body_parser_selected_by_handshake_type");
        vassert!(D_OFF_OK && D_LEN == fl, "C10.dispatch.body_isolated_to_fragment_length");
        if h.ty == 14 || h.ty == 16 {
            vassert!(D_ARG == h.length as usize, "C10.dispatch.declared_length_passed_to_body_parser");
        }
    }
    if let Ok((rem, DTLSMessage::Handshake(hm))) = &*r {
        check_hs_header(hm, &h);
        vassert!(is_sub(b, rem, 12 + fl, n - 12 - fl), "C10.dispatch.remainder_after_fragment_length");
        vcover!(fl > 0 && rem.len() > 0, "C10.dispatch.cover.body_and_rest");
    } else {
        vassert!(false, "C10.dispatch.result_wrapped");
    }
}
