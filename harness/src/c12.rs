//! C12 — cipher-suite registry is exact, self-consistent and invertible.
use crate::gen::ciphers_ref::*;
use crate::gen::Row;
use crate::util::*;
use crate::{vassert, vcover};
use core::convert::TryFrom;
use tls_parser as tp;
use tp::{TlsCipherEnc, TlsCipherMac, TlsCipherSuite, TlsCipherSuiteID};

fn same(a: Option<&'static TlsCipherSuite>, b: Option<&'static TlsCipherSuite>) -> bool {
    match (a, b) {
        (Some(x), Some(y)) => core::ptr::eq(x, y),
        (None, None) => true,
        _ => false,
    }
}

fn derived_sizes_consistent(c: &TlsCipherSuite) {
    vassert!(c.enc_key_size() * 8 == c.enc_size as usize, "C12.derived.key_bytes_is_key_bits_over_8");
    let ml = c.mac_length();
    match c.mac {
        TlsCipherMac::Null | TlsCipherMac::Aead => vassert!(ml == 0, "C12.derived.mac_length_zero_for_null_and_aead"),
        TlsCipherMac::HmacMd5 => vassert!(ml == 16, "C12.derived.mac_length_md5"),
        TlsCipherMac::HmacSha1 => vassert!(ml == 20, "C12.derived.mac_length_sha1"),
        TlsCipherMac::HmacSha256 => vassert!(ml == 32, "C12.derived.mac_length_sha256"),
        TlsCipherMac::HmacSha384 => vassert!(ml == 48, "C12.derived.mac_length_sha384"),
        TlsCipherMac::HmacSha512 => vassert!(ml == 64, "C12.derived.mac_length_sha512"),
    }
    match c.mac {
        TlsCipherMac::Null | TlsCipherMac::Aead => {}
        _ => vassert!(ml * 8 == c.mac_size as usize, "C12.derived.mac_length_is_mac_bits_over_8"),
    }
    let bs = c.enc_block_size();
    match c.enc {
        TlsCipherEnc::Des | TlsCipherEnc::TripleDes | TlsCipherEnc::Idea | TlsCipherEnc::Rc2 => {
            vassert!(bs == 8, "C12.derived.block_size_8")
        }
        TlsCipherEnc::Aes | TlsCipherEnc::Aria | TlsCipherEnc::Camellia | TlsCipherEnc::Seed | TlsCipherEnc::Sm4 => {
            vassert!(bs == 16, "C12.derived.block_size_16")
        }
        _ => vassert!(bs == 0, "C12.derived.block_size_0_otherwise"),
    }
}

/// Every 16-bit id through the compiled phf map (SipHash): presence iff listed, id carried, routes agree.
/// Split in two harnesses (two lookups each) so that they run in parallel.
#[kani::proof]
#[kani::unwind(4)]
fn c12_lookup_any_id() {
    let id: u16 = kani::any();
    let a = TlsCipherSuite::from_id(id);
    vassert!(a.is_some() == ref_has(id), "C12.lookup.from_id_some_iff_listed");
    let b = <&'static TlsCipherSuite>::try_from(id).ok();
    vassert!(same(a, b), "C12.lookup.all_routes_return_the_same_entry");
    if let Some(s) = a {
        vassert!(s.id.0 == id, "C12.lookup.suite_carries_queried_id");
        derived_sizes_consistent(s);
        vcover!(true, "C12.cover.listed_id");
    } else {
        vcover!(true, "C12.cover.unlisted_id");
    }
}

#[kani::proof]
#[kani::unwind(4)]
fn c12_lookup_any_id_other_routes() {
    let id: u16 = kani::any();
    let c = <&'static TlsCipherSuite>::try_from(TlsCipherSuiteID(id)).ok();
    let d = TlsCipherSuiteID(id).get_ciphersuite();
    vassert!(same(c, d), "C12.lookup.all_routes_return_the_same_entry");
    vassert!(c.is_some() == ref_has(id), "C12.lookup.try_from_id_some_iff_listed");
    if let Some(s) = c {
        // ids are unique keys: an entry carrying the queried id is the entry from_id returns (first harness)
        vassert!(s.id.0 == id, "C12.lookup.suite_carries_queried_id");
        vcover!(true, "C12.cover.listed_id_other_routes");
    }
}

fn str_eq(a: &str, b: &str) -> bool {
    let (a, b) = (a.as_bytes(), b.as_bytes());
    if a.len() != b.len() {
        return false;
    }
    let mut i = 0;
    while i < a.len() {
        if a[i] != b[i] {
            return false;
        }
        i += 1;
    }
    true
}

fn check_row(r: &Row, frozen: bool) {
    let c = TlsCipherSuite::from_id(r.id);
    if frozen {
        vassert!(c.is_some(), "C12.frozen.assignment_still_present");
    } else {
        vassert!(c.is_some(), "C12.row.listed_suite_present");
    }
    if let Some(c) = c {
        let all = c.id.0 == r.id
            && str_eq(c.name, r.name)
            && c.kx == r.kx
            && c.au == r.au
            && c.enc == r.enc
            && c.enc_mode == r.mode
            && c.enc_size == r.enc_size
            && c.mac == r.mac
            && c.mac_size == r.mac_size
            && c.prf == r.prf;
        if frozen {
            vassert!(all, "C12.frozen.assignment_unaltered");
        } else {
            vassert!(c.id.0 == r.id, "C12.row.id");
            vassert!(str_eq(c.name, r.name), "C12.row.name");
            vassert!(c.kx == r.kx, "C12.row.key_exchange");
            vassert!(c.au == r.au, "C12.row.authentication");
            vassert!(c.enc == r.enc, "C12.row.cipher");
            vassert!(c.enc_mode == r.mode, "C12.row.mode");
            vassert!(c.enc_size == r.enc_size, "C12.row.key_bits");
            vassert!(c.mac == r.mac, "C12.row.mac");
            vassert!(c.mac_size == r.mac_size, "C12.row.mac_bits");
            vassert!(c.prf == r.prf, "C12.row.prf");
            // parameters agree with the algorithm tokens of the IANA name
            if let Some(e) = r.n_enc {
                vassert!(c.enc == e, "C12.name_tokens.cipher_agrees_with_name");
            }
            if let Some(m) = r.n_mode {
                vassert!(c.enc_mode == m, "C12.name_tokens.mode_agrees_with_name");
            }
            if let Some(b) = r.n_bits {
                vassert!(c.enc_size == b, "C12.name_tokens.key_bits_agree_with_name");
            }
            if let Some(m) = r.n_mac {
                vassert!(c.mac == m, "C12.name_tokens.mac_agrees_with_name");
            }
            derived_sizes_consistent(c);
        }
    }
}

/// Row-by-row comparison (concrete loop; symbolic execution folds it). `K` of `OF` slices.
macro_rules! rows_harness {
    ($name:ident, $table:ident, $n:ident, $k:expr, $of:expr, $frozen:expr) => {
        #[kani::proof]
        #[kani::unwind(64)]
        fn $name() {
            let per = ($n + $of - 1) / $of;
            let lo = $k * per;
            let hi = if lo + per < $n { lo + per } else { $n };
            let mut i = lo;
            while i < hi {
                check_row(&$table[i], $frozen);
                i += 1;
            }
            vassert!($n > 300, "C12.rows.reference_table_loaded");
            vcover!(hi > lo, "C12.cover.rows_compared");
        }
    };
}
rows_harness!(c12_rows_0, ROWS, N_ROWS, 0, 8, false);
rows_harness!(c12_rows_1, ROWS, N_ROWS, 1, 8, false);
rows_harness!(c12_rows_2, ROWS, N_ROWS, 2, 8, false);
rows_harness!(c12_rows_3, ROWS, N_ROWS, 3, 8, false);
rows_harness!(c12_rows_4, ROWS, N_ROWS, 4, 8, false);
rows_harness!(c12_rows_5, ROWS, N_ROWS, 5, 8, false);
rows_harness!(c12_rows_6, ROWS, N_ROWS, 6, 8, false);
rows_harness!(c12_rows_7, ROWS, N_ROWS, 7, 8, false);

rows_harness!(c12_frozen_0, FROZEN, N_FROZEN, 0, 8, true);
rows_harness!(c12_frozen_1, FROZEN, N_FROZEN, 1, 8, true);
rows_harness!(c12_frozen_2, FROZEN, N_FROZEN, 2, 8, true);
rows_harness!(c12_frozen_3, FROZEN, N_FROZEN, 3, 8, true);
rows_harness!(c12_frozen_4, FROZEN, N_FROZEN, 4, 8, true);
rows_harness!(c12_frozen_5, FROZEN, N_FROZEN, 5, 8, true);
rows_harness!(c12_frozen_6, FROZEN, N_FROZEN, 6, 8, true);
rows_harness!(c12_frozen_7, FROZEN, N_FROZEN, 7, 8, true);

/// Lookup by name. (1) concrete: a registry name (seed-selected) finds the suite with that id through both
/// routes, a strict prefix finds nothing. (2) one byte of the name replaced by an arbitrary ASCII byte:
/// the result is a suite carrying exactly the queried name, and it is this suite iff the byte is unchanged.
macro_rules! name_harness {
    ($name:ident, $name_neg:ident, $name_sym:ident, $name_case:ident, $pick:expr) => {
        #[kani::proof]
        #[kani::unwind(356)]
        fn $name() {
            let idx = (($pick as u64 + SEED * 7) % (N_ROWS as u64)) as usize;
            let r = &ROWS[idx];
            let found = TlsCipherSuite::from_name(r.name);
            vassert!(matches!(found, Some(c) if c.id.0 == r.id), "C12.from_name.registry_name_finds_its_suite");
            let found2 = <&'static TlsCipherSuite>::try_from(r.name).ok();
            vassert!(same(found, found2), "C12.from_name.try_from_str_agrees");
            vcover!(true, "C12.cover.from_name_concrete");
        }

        /// negative lookups (concrete): a strict prefix and the same name with the case of one letter flipped
        #[kani::proof]
        #[kani::unwind(356)]
        fn $name_neg() {
            let idx = (($pick as u64 + SEED * 7) % (N_ROWS as u64)) as usize;
            let r = &ROWS[idx];
            let n = r.name.len();
            let f = TlsCipherSuite::from_name(&r.name[..n - 1]);
            vassert!(f.is_none() || f.map(|c| c.name.len()) == Some(n - 1), "C12.from_name.strict_prefix_does_not_find_this_suite");
            let mut lc = [0u8; 64];
            lc[..n].copy_from_slice(r.name.as_bytes());
            lc[0] ^= 0x20; // 'T' -> 't'
            {
                // ASCII by construction; from_utf8's word-at-a-time validation is costly to symbolically execute
                let sl = unsafe { core::str::from_utf8_unchecked(&lc[..n]) };
                let f = TlsCipherSuite::from_name(sl);
                vassert!(f.is_none(), "C12.from_name.other_string_does_not_find_this_suite");
            }
            vcover!(true, "C12.cover.from_name_negative");
        }

        /// negative lookup (concrete), quick tier: the same name with the case of one letter flipped
        #[kani::proof]
        #[kani::unwind(356)]
        fn $name_case() {
            let idx = (($pick as u64 + SEED * 7) % (N_ROWS as u64)) as usize;
            let r = &ROWS[idx];
            let n = r.name.len();
            let mut lc = [0u8; 64];
            lc[..n].copy_from_slice(r.name.as_bytes());
            lc[0] ^= 0x20; // 'T' -> 't'
            let sl = unsafe { core::str::from_utf8_unchecked(&lc[..n]) };
            let f = TlsCipherSuite::from_name(sl);
            vassert!(f.is_none(), "C12.from_name.other_string_does_not_find_this_suite");
            vcover!(true, "C12.cover.from_name_case");
        }

        #[kani::proof]
        #[kani::unwind(356)]
        fn $name_sym() {
            let idx = (($pick as u64 + SEED * 7) % (N_ROWS as u64)) as usize;
            let r = &ROWS[idx];
            let mut buf = [0u8; 64];
            let n = r.name.len();
            buf[..n].copy_from_slice(r.name.as_bytes());
            let pos = (SEED as usize * 13 + 9) % n;
            let x: u8 = kani::any();
            kani::assume(x < 0x80);
            let orig = buf[pos];
            buf[pos] = x;
            {
                let s = unsafe { core::str::from_utf8_unchecked(&buf[..n]) }; // x < 0x80: ASCII
                let f = TlsCipherSuite::from_name(s);
                match f {
                    Some(c) => {
                        vassert!(c.name.len() == n && c.name.as_bytes()[pos] == x, "C12.from_name.result_has_the_queried_name");
                        vassert!((x == orig) == (c.id.0 == r.id), "C12.from_name.other_string_does_not_find_this_suite");
                    }
                    None => vassert!(x != orig, "C12.from_name.exact_name_is_found"),
                }
                vcover!(f.is_none(), "C12.cover.mutated_name_not_found");
                vcover!(f.is_some(), "C12.cover.exact_name_found");
            }
        }
    };
}
name_harness!(c12_from_name_a, c12_from_name_neg_a, c12_from_name_sym_a, c12_from_name_case_a, 17);
name_harness!(c12_from_name_b, c12_from_name_neg_b, c12_from_name_sym_b, c12_from_name_case_b, 203);
