//! C04 — handshake messages decode to the values an RFC encoder wrote; bad ones fail.
use crate::oracle::*;
use crate::util::*;
use crate::{vassert, vcover};
use alloc::vec::Vec;
use core::mem::ManuallyDrop;
use tls_parser as tp;
use tp::nom::error::ErrorKind;
use tp::nom::{Err, IResult, Needed};
use tp::{TlsMessage, TlsMessageHandshake as HS};

macro_rules! sym_input {
    ($n:expr) => {{
        let buf: [u8; $n] = kani::any();
        let n: usize = kani::any();
        kani::assume(n <= $n);
        (buf, n)
    }};
}

fn opt_span_is(b: &[u8], got: Option<&[u8]>, want: Option<Span>) -> bool {
    match (got, want) {
        (Some(s), Some(sp)) => span_is(b, s, sp),
        (None, None) => true,
        _ => false,
    }
}

// ------------------------------------------------------------------------------------------------
// ClientHello body (direct), concrete total length per instance, all bytes symbolic.

pub fn check_client_hello(b: &[u8], r: Option<(&[u8], &tp::TlsClientHelloContents)>, elems: bool) {
    let c = ref_client_hello(b, false);
    match c.v {
        V::Reject => {
            vassert!(r.is_none(), "C04.ch.structurally_invalid.rejected");
            vcover!(true, "C04.ch.cover.rejected");
            vcover!(b.len() > 34 && b[34] > 32, "C04.ch.cover.session_id_longer_than_32");
            vcover!(b.len() > 34 && b[34] <= 32, "C04.ch.cover.list_overlong_or_odd_or_field_cut_off");
        }
        V::Accept | V::DontCare => {
            if c.v == V::Accept {
                vassert!(r.is_some(), "C04.ch.wellformed.accepted");
            }
            if let Some((rem, ch)) = r {
                vassert!(ch.version.0 == c.version, "C04.ch.version_exact");
                vassert!(span_is(b, ch.random, c.random), "C04.ch.random_exact");
                vassert!(opt_span_is(b, ch.session_id, c.sid), "C04.ch.session_id_presence_and_bytes_exact");
                vassert!(ch.ciphers.len() * 2 == c.ciphers.1, "C04.ch.cipher_count");
                vassert!(ch.comp.len() == c.comp.1, "C04.ch.compression_count");
                if elems {
                    // element-wise comparison only in the concrete-shape harnesses (reading a heap
                    // object of symbolic size does not fit the SAT back end)
                    let mut k = 0;
                    while k < ch.ciphers.len() {
                        vassert!(ch.ciphers[k].0 == be16(b, c.ciphers.0 + 2 * k), "C04.ch.cipher_exact_in_order");
                        k += 1;
                    }
                    let mut k = 0;
                    while k < ch.comp.len() {
                        vassert!(ch.comp[k].0 == b[c.comp.0 + k], "C04.ch.compression_exact_in_order");
                        k += 1;
                    }
                }
                if c.v == V::Accept {
                    vassert!(opt_span_is(b, ch.ext, c.ext), "C04.ch.extension_block_presence_and_bytes_exact");
                    vassert!(is_sub(b, rem, c.end, b.len() - c.end), "C04.ch.consumes_exactly_the_body");
                }
                vcover!(c.v == V::Accept, "C04.ch.cover.accepted");
                vcover!(c.v == V::Accept && c.sid.is_some() && ch.ciphers.len() >= 1, "C04.ch.cover.session_id_and_cipher");
                vcover!(c.v == V::Accept && c.ext.is_some(), "C04.ch.cover.with_extension_block");
                vcover!(c.v == V::DontCare, "C04.ch.cover.lenient_trailing_bytes");
            }
        }
    }
}

macro_rules! ch_direct {
    ($name:ident, $len:expr, $unw:expr) => {
        #[kani::proof]
        #[kani::unwind($unw)]
        fn $name() {
            let buf: [u8; $len] = kani::any();
            let b = &buf[..];
            let r = ManuallyDrop::new(tp::parse_tls_handshake_client_hello(b));
            check_client_hello(b, r.as_ref().ok().map(|(rem, v)| (*rem, v)), false);
        }
    };
}

/// Concrete shape (session-id, cipher-list, compression-list and extension-block lengths), symbolic
/// contents: every list element compared in order.
macro_rules! ch_shape {
    ($name:ident, $sid:expr, $nc:expr, $nm:expr, $ext:expr, $unw:expr) => {
        #[kani::proof]
        #[kani::unwind($unw)]
        fn $name() {
            const SID: usize = $sid;
            const NC: usize = $nc;
            const NM: usize = $nm;
            const EXT: usize = $ext; // usize::MAX = no extension block
            const EL: usize = if EXT == usize::MAX { 0 } else { 2 + EXT };
            const N: usize = 2 + 32 + 1 + SID + 2 + 2 * NC + 1 + NM + EL;
            let mut buf: [u8; N] = kani::any();
            buf[34] = SID as u8;
            buf[35 + SID] = 0;
            buf[36 + SID] = (2 * NC) as u8;
            buf[37 + SID + 2 * NC] = NM as u8;
            if EXT != usize::MAX {
                buf[38 + SID + 2 * NC + NM] = 0;
                buf[39 + SID + 2 * NC + NM] = EXT as u8;
            }
            let b = &buf[..];
            let r = ManuallyDrop::new(tp::parse_tls_handshake_client_hello(b));
            vassert!(r.is_ok(), "C04.chshape.wellformed.accepted");
            check_client_hello(b, r.as_ref().ok().map(|(rem, v)| (*rem, v)), true);
            if let Ok((_, ch)) = &*r {
                vassert!(ch.ciphers.len() == NC && ch.comp.len() == NM, "C04.chshape.list_lengths");
                vassert!(ch.session_id.map(|s| s.len()).unwrap_or(0) == SID, "C04.chshape.session_id_length");
                vassert!(ch.ext.is_some() == (EXT != usize::MAX), "C04.chshape.extension_block_presence");
            }
        }
    };
}
ch_shape!(c04_client_hello_shape_min, 0, 0, 0, usize::MAX, 5);
ch_shape!(c04_client_hello_shape_sid32_c2_m1_ext0, 32, 2, 1, 0, 6);
ch_shape!(c04_client_hello_shape_sid1_c3_m2_ext2, 1, 3, 2, 2, 7);

/// Session-id length 33 is rejected whatever follows.
#[kani::proof]
#[kani::unwind(5)]
fn c04_client_hello_sid33_rejected() {
    let mut buf: [u8; 2 + 32 + 1 + 33 + 2 + 2 + 1 + 1] = kani::any();
    buf[34] = 33;
    let r = ManuallyDrop::new(tp::parse_tls_handshake_client_hello(&buf[..]));
    vassert!(class(&r) == Class::Error, "C04.ch.session_id_length_33.rejected");
    vcover!(true, "C04.ch.cover.sid33");
}
ch_direct!(c04_client_hello_38, 38, 5);
ch_direct!(c04_client_hello_41, 41, 6);
ch_direct!(c04_client_hello_44, 44, 8);
ch_direct!(c04_client_hello_20, 20, 5);

// ------------------------------------------------------------------------------------------------
// ServerHello: version selects the form. Version bytes concrete per instance.

fn check_server_hello12(b: &[u8], has_ext: bool, r: Option<(&[u8], &tp::TlsServerHelloContents)>) {
    let c = ref_server_hello12(b, has_ext);
    match c.v {
        V::Reject => vassert!(r.is_none(), "C04.sh.structurally_invalid.rejected"),
        _ => {
            if c.v == V::Accept {
                vassert!(r.is_some(), "C04.sh.wellformed.accepted");
            }
            if let Some((rem, sh)) = r {
                vassert!(sh.version.0 == c.version, "C04.sh.version_exact");
                vassert!(span_is(b, sh.random, c.random), "C04.sh.random_exact");
                vassert!(opt_span_is(b, sh.session_id, c.sid), "C04.sh.session_id_presence_and_bytes_exact");
                vassert!(sh.cipher.0 == c.cipher, "C04.sh.cipher_exact");
                vassert!(sh.compression.0 == c.comp, "C04.sh.compression_exact");
                if c.v == V::Accept {
                    vassert!(opt_span_is(b, sh.ext, c.ext), "C04.sh.extension_block_presence_and_bytes_exact");
                    vassert!(is_sub(b, rem, c.end, b.len() - c.end), "C04.sh.consumes_exactly_the_body");
                }
                if !has_ext {
                    vassert!(sh.ext.is_none(), "C04.sh.sslv3_has_no_extension_block");
                }
                vcover!(c.v == V::Accept, "C04.sh.cover.accepted");
                vcover!(c.v == V::Accept && c.sid.is_some(), "C04.sh.cover.with_session_id");
                vcover!(c.v == V::Accept && c.ext.is_some(), "C04.sh.cover.with_extension_block");
            }
        }
    }
}

macro_rules! sh_msg {
    ($name:ident, $vh:expr, $vl:expr, $len:expr, $has_ext:expr) => {
        #[kani::proof]
        #[kani::unwind(5)]
        fn $name() {
            let mut buf: [u8; $len] = kani::any();
            buf[0] = $vh;
            buf[1] = $vl;
            let b = &buf[..];
            // message-level entry point
            let r = tp::parse_tls_handshake_msg_server_hello(b);
            let view = match &r {
                Ok((rem, HS::ServerHello(sh))) => Some((*rem, sh)),
                Ok(_) => {
                    vassert!(false, "C04.sh.variant_for_tls12_form");
                    None
                }
                Err(_) => None,
            };
            check_server_hello12(b, $has_ext, view);
            // contents-level entry point agrees
            let r2 = tp::parse_tls_handshake_server_hello(b);
            check_server_hello12(b, $has_ext, r2.as_ref().ok().map(|(rem, v)| (*rem, v)));
        }
    };
}
sh_msg!(c04_server_hello_tls12_42, 0x03, 0x03, 42, true);
sh_msg!(c04_server_hello_tls10_40, 0x03, 0x01, 40, true);
sh_msg!(c04_server_hello_tls11_38, 0x03, 0x02, 38, true);
sh_msg!(c04_server_hello_ssl3_40, 0x03, 0x00, 40, false);

/// TLS 1.3 draft-18 form: version, random, cipher, optional extension block.
#[kani::proof]
#[kani::unwind(5)]
fn c04_server_hello_draft18_40() {
    let mut buf: [u8; 40] = kani::any();
    buf[0] = 0x7f;
    buf[1] = 0x12;
    let b = &buf[..];
    let r = tp::parse_tls_handshake_msg_server_hello(b);
    let (v, ext, end) = ref_opt_ext(b, 36);
    if v == V::Accept {
        vassert!(r.is_ok(), "C04.sh18.wellformed.accepted");
    }
    match &r {
        Ok((rem, HS::ServerHelloV13Draft18(sh))) => {
            vassert!(sh.version.0 == 0x7f12, "C04.sh18.version_exact");
            vassert!(is_sub(b, sh.random, 2, 32), "C04.sh18.random_exact");
            vassert!(sh.cipher.0 == be16(b, 34), "C04.sh18.cipher_exact");
            if v == V::Accept {
                vassert!(opt_span_is(b, sh.ext, ext), "C04.sh18.extension_block_presence_and_bytes_exact");
                vassert!(is_sub(b, rem, end, 40 - end), "C04.sh18.consumes_exactly_the_body");
                vcover!(ext.is_some(), "C04.sh18.cover.with_extension_block");
            }
        }
        Ok(_) => vassert!(false, "C04.sh18.variant_for_draft18_form"),
        Err(_) => {}
    }
}

/// Unsupported legacy versions are rejected by both ServerHello entry points.
#[kani::proof]
#[kani::unwind(5)]
fn c04_server_hello_unsupported_version() {
    let buf: [u8; 40] = kani::any();
    let b = &buf[..];
    let v = be16(b, 0);
    kani::assume(!(v >= 0x0300 && v <= 0x0303));
    let r2 = tp::parse_tls_handshake_server_hello(b);
    vassert!(class(&r2) == Class::Error, "C04.sh.unsupported_version.rejected_by_contents_parser");
    kani::assume(v != 0x7f12);
    let r = tp::parse_tls_handshake_msg_server_hello(b);
    vassert!(class(&r) == Class::Error, "C04.sh.unsupported_version.rejected_by_message_parser");
    vcover!(v == 0x0304, "C04.sh.cover.tls13_legacy_version_field_rejected");
    vcover!(v == 0xfefd, "C04.sh.cover.dtls_version_rejected");
}

// ------------------------------------------------------------------------------------------------
// Flat bodies with a symbolic length argument (full usize range) and symbolic input length.

#[kani::proof]
#[kani::unwind(6)]
fn c04_new_session_ticket() {
    let (buf, n) = sym_input!(9);
    let b = &buf[..n];
    let len: usize = kani::any();
    let r = tp::parse_tls_handshake_msg_newsessionticket(b, len);
    if len < 4 {
        vassert!(class(&r) == Class::Error, "C04.nst.shorter_than_4.rejected");
        vcover!(n >= 4, "C04.nst.cover.short_len_with_enough_bytes");
    } else if len > n {
        vassert!(r.is_err(), "C04.nst.cut_off.no_value");
        vcover!(len == usize::MAX, "C04.nst.cover.huge_len");
    } else {
        vassert!(r.is_ok(), "C04.nst.wellformed.accepted");
        if let Ok((rem, HS::NewSessionTicket(t))) = &r {
            vassert!(t.ticket_lifetime_hint == be32(b, 0), "C04.nst.lifetime_hint_exact");
            vassert!(is_sub(b, t.ticket, 4, len - 4), "C04.nst.ticket_exact");
            vassert!(is_sub(b, rem, len, n - len), "C04.nst.consumes_exactly_len");
            vcover!(len > 4 && n > len, "C04.nst.cover.ticket_and_rest");
        } else {
            vassert!(false, "C04.nst.variant");
        }
    }
}

#[kani::proof]
#[kani::unwind(5)]
fn c04_hello_retry_request() {
    let (buf, n) = sym_input!(9);
    let b = &buf[..n];
    let r = tp::parse_tls_handshake_msg_hello_retry_request(b);
    if n < 4 {
        vassert!(r.is_err(), "C04.hrr.cut_off.no_value");
        return;
    }
    let (v, ext, end) = ref_opt_ext(b, 4);
    vassert!(r.is_ok(), "C04.hrr.accepted");
    if let Ok((rem, HS::HelloRetryRequest(h))) = &r {
        vassert!(h.version.0 == be16(b, 0), "C04.hrr.version_exact");
        vassert!(h.cipher.0 == be16(b, 2), "C04.hrr.cipher_exact");
        if v == V::Accept {
            vassert!(opt_span_is(b, h.ext, ext), "C04.hrr.extension_block_presence_and_bytes_exact");
            vassert!(is_sub(b, rem, end, n - end), "C04.hrr.consumes_exactly_the_body");
            vcover!(ext.is_some() && ext.unwrap().1 > 0, "C04.hrr.cover.with_extension_block");
        }
    } else {
        vassert!(false, "C04.hrr.variant");
    }
}

/// Opaque bodies: exactly `len` bytes.
macro_rules! opaque_body {
    ($name:ident, $f:path, $lbl:literal, |$b:ident, $len:ident, $m:ident| $pat:pat => $slice:expr) => {
        #[kani::proof]
        #[kani::unwind(5)]
        fn $name() {
            let (buf, n) = sym_input!(6);
            let $b = &buf[..n];
            let $len: usize = kani::any();
            let r = $f($b, $len);
            if $len > n {
                vassert!(r.is_err(), $lbl, ".cut_off.no_value");
                vcover!($len == usize::MAX, $lbl, ".cover.huge_len");
            } else {
                vassert!(r.is_ok(), $lbl, ".accepted");
                match &r {
                    Ok((rem, $pat)) => {
                        vassert!(is_sub($b, $slice, 0, $len), $lbl, ".body_exact");
                        vassert!(is_sub($b, rem, $len, n - $len), $lbl, ".consumes_exactly_len");
                        vcover!($len > 0 && n > $len, $lbl, ".cover.body_and_rest");
                        vcover!($len == 0, $lbl, ".cover.empty_body");
                    }
                    _ => vassert!(false, $lbl, ".variant"),
                }
            }
        }
    };
}
opaque_body!(c04_server_key_exchange, tp::parse_tls_handshake_msg_serverkeyexchange, "C04.ske", |b, len, m| HS::ServerKeyExchange(m) => m.parameters);
opaque_body!(c04_server_done, tp::parse_tls_handshake_msg_serverdone, "C04.serverdone", |b, len, m| HS::ServerDone(m) => m);
opaque_body!(c04_certificate_verify, tp::parse_tls_handshake_msg_certificateverify, "C04.certverify", |b, len, m| HS::CertificateVerify(m) => m);
opaque_body!(c04_finished, tp::parse_tls_handshake_msg_finished, "C04.finished", |b, len, m| HS::Finished(m) => m);
opaque_body!(c04_client_key_exchange, tp::parse_tls_handshake_msg_clientkeyexchange, "C04.cke", |b, len, m| HS::ClientKeyExchange(tp::TlsClientKeyExchangeContents::Unknown(m)) => m);

/// Certificate: u24 total, then u24-length-prefixed certificates, in order.
#[kani::proof]
#[kani::unwind(6)]
fn c04_certificate() {
    let (buf, n) = sym_input!(11);
    let b = &buf[..n];
    let r = ManuallyDrop::new(tp::parse_tls_handshake_msg_certificate(b));
    if n < 3 || (be24(b, 0) as usize) > n - 3 {
        vassert!(r.is_err(), "C04.cert.list_longer_than_body.no_value");
        vcover!(n >= 3, "C04.cert.cover.list_longer_than_body");
        return;
    }
    let limit = 3 + be24(b, 0) as usize;
    vassert!(r.is_ok(), "C04.cert.contained.accepted");
    if let Ok((rem, HS::Certificate(c))) = &*r {
        vassert!(is_sub(b, rem, limit, n - limit), "C04.cert.consumes_exactly_declared_list");
        let mut pos = 3;
        let mut k = 0;
        while pos + 3 <= limit {
            let l = be24(b, pos) as usize;
            if l > limit - pos - 3 {
                break;
            }
            vassert!(k < c.cert_chain.len(), "C04.cert.every_certificate_returned");
            if k < c.cert_chain.len() {
                vassert!(is_sub(b, c.cert_chain[k].data, pos + 3, l), "C04.cert.certificate_exact_in_order");
            }
            k += 1;
            pos += 3 + l;
        }
        vassert!(c.cert_chain.len() == k, "C04.cert.no_value_for_overrunning_certificate");
        vcover!(k == 2, "C04.cert.cover.two_certificates");
        vcover!(k == 1 && pos < limit, "C04.cert.cover.second_certificate_overruns_list");
    } else {
        vassert!(false, "C04.cert.variant");
    }
}

/// CertificateStatus: status_type u8, u24-length-prefixed blob.
#[kani::proof]
#[kani::unwind(5)]
fn c04_certificate_status() {
    let (buf, n) = sym_input!(8);
    let b = &buf[..n];
    let r = tp::parse_tls_handshake_msg_certificatestatus(b);
    let mut rd = Rd::new(b);
    let st = rd.u8();
    let blob = rd.lp24();
    if rd.short {
        vassert!(r.is_err(), "C04.certstatus.blob_longer_than_body.no_value");
        vcover!(n >= 4, "C04.certstatus.cover.blob_longer_than_body");
    } else {
        vassert!(r.is_ok(), "C04.certstatus.accepted");
        if let Ok((rem, HS::CertificateStatus(c))) = &r {
            vassert!(c.status_type == st, "C04.certstatus.type_exact");
            vassert!(span_is(b, c.blob, blob), "C04.certstatus.blob_exact");
            vassert!(is_sub(b, rem, rd.pos, n - rd.pos), "C04.certstatus.consumes_exactly_own_encoding");
            vcover!(blob.1 > 0 && rem.len() > 0, "C04.certstatus.cover.blob_and_rest");
        } else {
            vassert!(false, "C04.certstatus.variant");
        }
    }
}

/// NextProtocol: two u8-length-prefixed fields.
#[kani::proof]
#[kani::unwind(5)]
fn c04_next_protocol() {
    let (buf, n) = sym_input!(7);
    let b = &buf[..n];
    let r = tp::parse_tls_handshake_msg_next_protocol(b);
    let mut rd = Rd::new(b);
    let sp = rd.lp8();
    let pad = rd.lp8();
    if rd.short {
        vassert!(r.is_err(), "C04.npn.cut_off.no_value");
    } else {
        vassert!(r.is_ok(), "C04.npn.accepted");
        if let Ok((rem, HS::NextProtocol(p))) = &r {
            vassert!(span_is(b, p.selected_protocol, sp), "C04.npn.selected_protocol_exact");
            vassert!(span_is(b, p.padding, pad), "C04.npn.padding_exact");
            vassert!(is_sub(b, rem, rd.pos, n - rd.pos), "C04.npn.consumes_exactly_own_encoding");
            vcover!(sp.1 > 0 && pad.1 > 0, "C04.npn.cover.both_nonempty");
        } else {
            vassert!(false, "C04.npn.variant");
        }
    }
}

/// KeyUpdate and HelloRequest.
#[kani::proof]
#[kani::unwind(4)]
fn c04_key_update_and_hello_request() {
    let (buf, n) = sym_input!(3);
    let b = &buf[..n];
    let r = tp::parse_tls_handshake_msg_key_update(b);
    if n == 0 {
        vassert!(r.is_err(), "C04.keyupdate.cut_off.no_value");
    } else {
        vassert!(matches!(&r, Ok((rem, HS::KeyUpdate(x))) if *x == b[0] && is_sub(b, rem, 1, n - 1)), "C04.keyupdate.value_exact");
    }
    let r = tp::parse_tls_handshake_msg_hello_request(b);
    vassert!(matches!(&r, Ok((rem, HS::HelloRequest)) if is_sub(b, rem, 0, n)), "C04.hellorequest.empty_body");
}

/// CertificateRequest: TLS 1.2 form (types, signature algorithms, CAs) tried first, then the legacy form.
struct CrRef {
    ok: bool,
    types: Span,
    sigs: Option<Span>,
    cas: Span,
    end: usize,
}
fn ref_cert_request(b: &[u8], with_sig: bool) -> CrRef {
    let mut rd = Rd::new(b);
    let types = rd.lp8();
    let sigs = if with_sig { Some(rd.lp16()) } else { None };
    let cas = rd.lp16();
    CrRef { ok: !rd.short, types, sigs, cas, end: rd.pos }
}

macro_rules! cert_request {
    ($name:ident, $n:expr, $unw:expr) => {
#[kani::proof]
#[kani::unwind($unw)]
fn $name() {
    let (buf, n) = sym_input!($n);
    let b = &buf[..n];
    let r = ManuallyDrop::new(tp::parse_tls_handshake_certificaterequest(b));
    let full = ref_cert_request(b, true);
    let legacy = ref_cert_request(b, false);
    let c = if full.ok { &full } else { &legacy };
    if !full.ok && !legacy.ok {
        vassert!(r.is_err(), "C04.certreq.mandatory_field_cut_off.no_value");
        vcover!(n > 3, "C04.certreq.cover.cut_off");
        return;
    }
    vassert!(r.is_ok(), "C04.certreq.wellformed.accepted");
    if let Ok((rem, cr)) = &*r {
        vassert!(cr.sig_hash_algs.is_some() == full.ok, "C04.certreq.tls12_form_first_then_legacy");
        vassert!(cr.cert_types.len() == c.types.1, "C04.certreq.certificate_type_count");
        let mut k = 0;
        while k < cr.cert_types.len() {
            vassert!(cr.cert_types[k] == b[c.types.0 + k], "C04.certreq.certificate_types_exact_in_order");
            k += 1;
        }
        if let (Some(v), Some(sp)) = (&cr.sig_hash_algs, c.sigs) {
            vassert!(v.len() == sp.1 / 2, "C04.certreq.signature_algorithm_count");
            let mut k = 0;
            while k < v.len() {
                vassert!(v[k] == be16(b, sp.0 + 2 * k), "C04.certreq.signature_algorithms_exact_in_order");
                k += 1;
            }
        }
        // distinguished names: u16-length-prefixed entries inside the CA block
        let limit = c.cas.0 + c.cas.1;
        let mut pos = c.cas.0;
        let mut k = 0;
        while pos + 2 <= limit {
            let l = be16(b, pos) as usize;
            if l > limit - pos - 2 {
                break;
            }
            vassert!(k < cr.unparsed_ca.len(), "C04.certreq.every_ca_returned");
            if k < cr.unparsed_ca.len() {
                vassert!(is_sub(b, cr.unparsed_ca[k], pos + 2, l), "C04.certreq.ca_exact_in_order");
            }
            k += 1;
            pos += 2 + l;
        }
        vassert!(cr.unparsed_ca.len() == k, "C04.certreq.no_value_for_overrunning_ca");
        vassert!(is_sub(b, rem, c.end, n - c.end), "C04.certreq.consumes_exactly_own_encoding");
        vcover!(full.ok && c.types.1 == 1, "C04.certreq.cover.tls12_form");
        vcover!(!full.ok, "C04.certreq.cover.legacy_form");
        vcover!(k == 1, "C04.certreq.cover.one_ca");
    }
}
    };
}
cert_request!(c04_certificate_request_6, 6, 8);
#[cfg(feature = "thorough")]
cert_request!(c04_certificate_request_8, 8, 10);

// ------------------------------------------------------------------------------------------------
// parse_tls_message_handshake: framing and dispatch for all 256 types, every body parser replaced
// by a marker that records which callee ran, on exactly which bytes and with which length argument.

static mut MARK: u8 = 0xff;
static mut M_OFF_OK: bool = false;
static mut M_LEN: usize = 0;
static mut M_ARG: usize = usize::MAX;
pub(crate) static mut M_CALLS: u32 = 0;
pub(crate) static mut BASE: usize = 0;
pub(crate) static mut M_FAIL: bool = false;

fn mark<'a>(id: u8, i: &'a [u8], arg: usize) -> IResult<&'a [u8], HS<'a>> {
    unsafe {
        MARK = id;
        M_OFF_OK = (i.as_ptr() as usize) == BASE + 4;
        M_LEN = i.len();
        M_ARG = arg;
        M_CALLS += 1;
        if M_FAIL {
            return Err(Err::Error(tp::nom::error::Error::new(i, ErrorKind::Tag)));
        }
    }
    Ok((i, HS::KeyUpdate(id)))
}
pub(crate) fn st_hello_request(i: &[u8]) -> IResult<&[u8], HS> { mark(0x00, i, usize::MAX) }
pub(crate) fn st_client_hello(i: &[u8]) -> IResult<&[u8], HS> { mark(0x01, i, usize::MAX) }
pub(crate) fn st_server_hello(i: &[u8]) -> IResult<&[u8], HS> { mark(0x02, i, usize::MAX) }
pub(crate) fn st_nst(i: &[u8], l: usize) -> IResult<&[u8], HS> { mark(0x04, i, l) }
pub(crate) fn st_hrr(i: &[u8]) -> IResult<&[u8], HS> { mark(0x06, i, usize::MAX) }
pub(crate) fn st_cert(i: &[u8]) -> IResult<&[u8], HS> { mark(0x0b, i, usize::MAX) }
pub(crate) fn st_ske(i: &[u8], l: usize) -> IResult<&[u8], HS> { mark(0x0c, i, l) }
pub(crate) fn st_certreq(i: &[u8]) -> IResult<&[u8], HS> { mark(0x0d, i, usize::MAX) }
pub(crate) fn st_done(i: &[u8], l: usize) -> IResult<&[u8], HS> { mark(0x0e, i, l) }
pub(crate) fn st_certverify(i: &[u8], l: usize) -> IResult<&[u8], HS> { mark(0x0f, i, l) }
pub(crate) fn st_cke(i: &[u8], l: usize) -> IResult<&[u8], HS> { mark(0x10, i, l) }
pub(crate) fn st_finished(i: &[u8], l: usize) -> IResult<&[u8], HS> { mark(0x14, i, l) }
pub(crate) fn st_certstatus(i: &[u8]) -> IResult<&[u8], HS> { mark(0x16, i, usize::MAX) }
pub(crate) fn st_keyupdate(i: &[u8]) -> IResult<&[u8], HS> { mark(0x18, i, usize::MAX) }
pub(crate) fn st_npn(i: &[u8]) -> IResult<&[u8], HS> { mark(0x43, i, usize::MAX) }

/// does this type take the declared length as an argument?
fn takes_len(t: u8) -> bool {
    matches!(t, 0x04 | 0x0c | 0x0e | 0x0f | 0x10 | 0x14)
}
pub(crate) fn is_known(t: u8) -> bool {
    matches!(t, 0x00 | 0x01 | 0x02 | 0x04 | 0x05 | 0x06 | 0x0b | 0x0c | 0x0d | 0x0e | 0x0f | 0x10 | 0x14 | 0x16 | 0x18 | 0x43)
}

#[kani::proof]
#[kani::unwind(5)]
#[kani::stub(tp::parse_tls_handshake_msg_hello_request, st_hello_request)]
#[kani::stub(tp::parse_tls_handshake_msg_client_hello, st_client_hello)]
#[kani::stub(tp::parse_tls_handshake_msg_server_hello, st_server_hello)]
#[kani::stub(tp::parse_tls_handshake_msg_newsessionticket, st_nst)]
#[kani::stub(tp::parse_tls_handshake_msg_hello_retry_request, st_hrr)]
#[kani::stub(tp::parse_tls_handshake_msg_certificate, st_cert)]
#[kani::stub(tp::parse_tls_handshake_msg_serverkeyexchange, st_ske)]
#[kani::stub(tp::parse_tls_handshake_msg_certificaterequest, st_certreq)]
#[kani::stub(tp::parse_tls_handshake_msg_serverdone, st_done)]
#[kani::stub(tp::parse_tls_handshake_msg_certificateverify, st_certverify)]
#[kani::stub(tp::parse_tls_handshake_msg_clientkeyexchange, st_cke)]
#[kani::stub(tp::parse_tls_handshake_msg_finished, st_finished)]
#[kani::stub(tp::parse_tls_handshake_msg_certificatestatus, st_certstatus)]
#[kani::stub(tp::parse_tls_handshake_msg_key_update, st_keyupdate)]
#[kani::stub(tp::parse_tls_handshake_msg_next_protocol, st_npn)]
fn c04_dispatch_wiring() {
    let (buf, n) = sym_input!(10);
    let b = &buf[..n];
    let fail: bool = kani::any();
    unsafe {
        BASE = b.as_ptr() as usize;
        M_CALLS = 0;
        M_FAIL = fail;
        MARK = 0xff;
    }
    let r = ManuallyDrop::new(tp::parse_tls_message_handshake(b));
    let calls = unsafe { M_CALLS };
    if n < 4 || (be24(b, 1) as usize) > n - 4 {
        vassert!(class(&r) == Class::Incomplete, "C04.msg.truncated.incomplete");
        vassert!(calls == 0, "C04.msg.truncated.no_body_parser_run");
        vcover!(n >= 4, "C04.msg.cover.declared_length_exceeds_input");
        return;
    }
    let t = b[0];
    let hl = be24(b, 1) as usize;
    if !is_known(t) {
        vassert!(class(&r) == Class::Error, "C04.msg.unknown_handshake_type.rejected");
        vassert!(calls == 0, "C04.msg.unknown_type.no_body_parser_run");
        vcover!(t == 0x03, "C04.msg.cover.hello_verify_request_unknown_in_tls");
        vcover!(t == 0x15, "C04.msg.cover.certificate_url_unknown");
        return;
    }
    if t == 0x05 {
        // EndOfEarlyData has no body parser
        vassert!(calls == 0, "C04.msg.end_of_early_data.no_body_parser");
        vassert!(matches!(&*r, Ok((rem, TlsMessage::Handshake(HS::EndOfEarlyData))) if is_sub(b, rem, 4 + hl, n - 4 - hl)), "C04.msg.end_of_early_data.decoded");
        return;
    }
    vassert!(calls == 1, "C04.msg.exactly_one_body_parser_run");
    unsafe {
        vassert!(MARK == t, "C04.msg.body_parser_selected_by_handshake_type");
        vassert!(M_OFF_OK && M_LEN == hl, "C04.msg.body_isolated_to_declared_length");
        if takes_len(t) {
            vassert!(M_ARG == hl, "C04.msg.declared_length_passed_to_body_parser");
        }
    }
    if fail {
        vassert!(r.is_err(), "C04.msg.body_error_propagates");
        vcover!(true, "C04.msg.cover.body_error");
    } else {
        vassert!(matches!(&*r, Ok((rem, TlsMessage::Handshake(HS::KeyUpdate(id)))) if *id == t && is_sub(b, rem, 4 + hl, n - 4 - hl)),
                 "C04.msg.result_wrapped_and_remainder_after_declared_length");
        vcover!(hl > 0 && n > 4 + hl, "C04.msg.cover.body_and_rest");
    }
}

// ------------------------------------------------------------------------------------------------
// End to end through parse_tls_message_handshake (nothing stubbed): type and lengths concrete,
// body bytes and the byte after the message symbolic; the body parser must not see that byte.

macro_rules! msg_e2e {
    ($name:ident, $ty:expr, $hl:expr, $unw:expr, |$b:ident, $body:ident, $m:ident| $chk:block) => {
        #[kani::proof]
        #[kani::unwind($unw)]
        fn $name() {
            const HL: usize = $hl;
            let mut buf: [u8; 4 + HL + 1] = kani::any();
            buf[0] = $ty;
            buf[1] = 0;
            buf[2] = 0;
            buf[3] = HL as u8;
            let $b = &buf[..];
            let r = ManuallyDrop::new(tp::parse_tls_message_handshake($b));
            let $body = &$b[4..4 + HL];
            if let Ok((rem, _)) = &*r {
                vassert!(is_sub($b, rem, 4 + HL, 1), "C04.e2e.remainder_after_declared_length");
            }
            let $m: Option<&HS> = match &*r {
                Ok((_, TlsMessage::Handshake(h))) => Some(h),
                Ok(_) => {
                    vassert!(false, "C04.e2e.is_handshake");
                    None
                }
                Err(_) => None,
            };
            $chk
        }
    };
}

msg_e2e!(c04_e2e_client_hello_41, 0x01, 41, 6, |b, body, m| {
    let view = match m {
        Some(HS::ClientHello(ch)) => Some((&body[body.len()..], ch)),
        Some(_) => {
            vassert!(false, "C04.e2e.ch.variant");
            None
        }
        None => None,
    };
    // remainder inside the body is not observable through the message parser: compare fields only
    let c = ref_client_hello(body, false);
    match (c.v, view) {
        (V::Reject, v) => vassert!(v.is_none(), "C04.e2e.ch.structurally_invalid.rejected"),
        (V::Accept, None) => vassert!(false, "C04.e2e.ch.wellformed.accepted"),
        (_, Some((_, ch))) => {
            vassert!(ch.version.0 == c.version && span_is(body, ch.random, c.random) && opt_span_is(body, ch.session_id, c.sid), "C04.e2e.ch.fields_exact");
            vassert!(ch.ciphers.len() * 2 == c.ciphers.1 && ch.comp.len() == c.comp.1, "C04.e2e.ch.list_counts");
            if c.v == V::Accept {
                vassert!(opt_span_is(body, ch.ext, c.ext), "C04.e2e.ch.extension_block");
            }
            if let Some(e) = ch.ext {
                vassert!(inside(body, e, body.len()), "C04.e2e.ch.never_reads_beyond_declared_length");
            }
            vcover!(c.v == V::Accept, "C04.e2e.ch.cover.accepted");
        }
        (V::DontCare, None) => {}
    }
});

msg_e2e!(c04_e2e_finished_3, 0x14, 3, 6, |b, body, m| {
    vassert!(matches!(m, Some(HS::Finished(d)) if is_sub(b, d, 4, 3)), "C04.e2e.finished.body_is_exactly_declared_bytes");
});
msg_e2e!(c04_e2e_new_session_ticket_3, 0x04, 3, 6, |b, body, m| {
    vassert!(m.is_none(), "C04.e2e.nst.shorter_than_4.rejected");
});
msg_e2e!(c04_e2e_new_session_ticket_6, 0x04, 6, 6, |b, body, m| {
    vassert!(matches!(m, Some(HS::NewSessionTicket(t)) if t.ticket_lifetime_hint == be32(b, 4) && is_sub(b, t.ticket, 8, 2)), "C04.e2e.nst.fields_exact");
});
msg_e2e!(c04_e2e_certificate_status_5, 0x16, 5, 6, |b, body, m| {
    let l = be24(body, 1) as usize;
    if l > 1 {
        vassert!(m.is_none(), "C04.e2e.certstatus.blob_longer_than_body.rejected");
        vcover!(l == 2, "C04.e2e.certstatus.cover.blob_would_fit_only_by_reading_the_next_byte");
    } else {
        vassert!(matches!(m, Some(HS::CertificateStatus(c)) if c.status_type == body[0] && is_sub(b, c.blob, 8, l)), "C04.e2e.certstatus.fields_exact");
    }
});
msg_e2e!(c04_e2e_next_protocol_4, 0x43, 4, 6, |b, body, m| {
    let mut rd = Rd::new(body);
    let sp = rd.lp8();
    let pad = rd.lp8();
    if rd.short {
        vassert!(m.is_none(), "C04.e2e.npn.field_cut_off_by_declared_length.rejected");
        vcover!(true, "C04.e2e.npn.cover.cut_off");
    } else {
        vassert!(matches!(m, Some(HS::NextProtocol(p)) if span_is(body, p.selected_protocol, sp) && span_is(body, p.padding, pad)), "C04.e2e.npn.fields_exact");
    }
});
msg_e2e!(c04_e2e_key_update_0, 0x18, 0, 6, |b, body, m| {
    vassert!(m.is_none(), "C04.e2e.keyupdate.empty_body.rejected_not_read_from_next_message");
});
msg_e2e!(c04_e2e_server_hello_38, 0x02, 38, 6, |b, body, m| {
    // version symbolic here: all forms reachable through the dispatcher
    let v = be16(body, 0);
    if v >= 0x0300 && v <= 0x0303 {
        let view = match m {
            Some(HS::ServerHello(sh)) => Some((&body[body.len()..], sh)),
            Some(_) => {
                vassert!(false, "C04.e2e.sh.variant");
                None
            }
            None => None,
        };
        let c = ref_server_hello12(body, v != 0x0300);
        match (c.v, view) {
            (V::Reject, x) => vassert!(x.is_none(), "C04.e2e.sh.structurally_invalid.rejected"),
            (V::Accept, None) => vassert!(false, "C04.e2e.sh.wellformed.accepted"),
            (_, Some((_, sh))) => {
                vassert!(sh.version.0 == v && sh.cipher.0 == c.cipher && sh.compression.0 == c.comp && opt_span_is(body, sh.session_id, c.sid), "C04.e2e.sh.fields_exact");
            }
            _ => {}
        }
        vcover!(c.v == V::Accept, "C04.e2e.sh.cover.accepted");
    } else if v == 0x7f12 {
        vassert!(matches!(m, Some(HS::ServerHelloV13Draft18(_)) | None), "C04.e2e.sh.draft18_form");
    } else {
        vassert!(m.is_none(), "C04.e2e.sh.unsupported_version.rejected");
        vcover!(true, "C04.e2e.sh.cover.unsupported_version");
    }
});

/// Opaque bodies at realistic sizes: a 70 000-byte input with unconstrained contents, input length and
/// `len` argument symbolic (Ok side of lengths beyond 16 bits).
#[kani::proof]
#[kani::unwind(6)]
fn c04_opaque_body_large() {
    let mut big: alloc::vec::Vec<u8> = alloc::vec::Vec::with_capacity(70_000);
    unsafe { big.set_len(70_000); }
    let big = ManuallyDrop::new(big);
    let n: usize = kani::any();
    kani::assume(n <= 70_000);
    let b = &big[..n];
    let len: usize = kani::any();
    let r = tp::parse_tls_handshake_msg_serverkeyexchange(b, len);
    if len > n {
        vassert!(r.is_err(), "C04.ske.cut_off.no_value");
    } else {
        vassert!(r.is_ok(), "C04.ske.accepted");
        if let Ok((rem, HS::ServerKeyExchange(k))) = &r {
            vassert!(is_sub(b, k.parameters, 0, len) && is_sub(b, rem, len, n - len), "C04.ske.body_exact");
            vcover!(len == 65_536, "C04.ske.cover.body_of_65536_bytes");
        }
    }
    let r = tp::parse_tls_handshake_msg_newsessionticket(b, len);
    if len >= 4 && len <= n {
        vassert!(matches!(&r, Ok((rem, HS::NewSessionTicket(t))) if is_sub(b, t.ticket, 4, len - 4) && is_sub(b, rem, len, n - len)), "C04.nst.ticket_exact");
        vcover!(len == 70_000, "C04.nst.cover.ticket_of_69996_bytes");
    } else {
        vassert!(r.is_err(), "C04.nst.cut_off.no_value");
    }
}
