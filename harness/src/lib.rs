//! Kani harnesses for rusticata/tls-parser. See /verif/DESIGN.md.
#![recursion_limit = "512"]
#![allow(dead_code, unused_imports, unused_macros, clippy::all)]
#![cfg_attr(not(feature = "std"), no_std)]

extern crate alloc;

pub mod util;
pub mod oracle;

#[cfg(all(kani, feature = "c02"))]
mod c02;
#[cfg(all(kani, feature = "c03"))]
mod c03;
#[cfg(all(kani, feature = "c08"))]
mod c08;
