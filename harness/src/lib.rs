//! Kani harnesses for rusticata/tls-parser. See /verif/DESIGN.md.
#![recursion_limit = "512"]
#![allow(dead_code, unused_imports, unused_macros, clippy::all)]
#![cfg_attr(not(feature = "std"), no_std)]

extern crate alloc;

pub mod util;
pub mod oracle;
pub mod gen;

#[cfg(all(kani, feature = "c01"))]
mod c01;
#[cfg(all(kani, feature = "c02"))]
mod c02;
#[cfg(all(kani, feature = "c03"))]
mod c03;
#[cfg(all(kani, any(feature = "c04", feature = "c03", feature = "c02")))]
mod c04;
#[cfg(all(kani, feature = "c05"))]
mod c05;
#[cfg(all(kani, feature = "c04t"))]
mod c04t;
#[cfg(all(kani, feature = "c05t"))]
mod c05t;
#[cfg(all(kani, feature = "c06"))]
mod c06;
#[cfg(all(kani, feature = "c07"))]
mod c07;
#[cfg(all(kani, feature = "c08"))]
mod c08;
#[cfg(all(kani, feature = "c09", feature = "serialize"))]
mod c09;
#[cfg(all(kani, feature = "c10"))]
mod c10;
#[cfg(all(kani, feature = "c11"))]
mod c11;
#[cfg(all(kani, feature = "c12"))]
mod c12;
#[cfg(all(kani, feature = "c13"))]
mod c13;
#[cfg(all(kani, feature = "c15"))]
mod c15;
#[cfg(all(kani, feature = "c16"))]
mod c16;
#[cfg(all(kani, feature = "c18"))]
mod c18;
#[cfg(all(kani, any(feature = "c17", feature = "c01")))]
mod c17;
#[cfg(all(kani, feature = "c14"))]
mod c14;
