//! C13 — key-exchange parameters and signatures decode exactly and self-delimit.
use crate::oracle::*;
use crate::util::*;
use crate::{vassert, vcover};
use core::mem::ManuallyDrop;
use nom_derive::Parse;
use tls_parser as tp;
use tp::nom::{Err, IResult};

macro_rules! sym_input {
    ($n:expr) => {{
        let buf: [u8; $n] = kani::any();
        let n: usize = kani::any();
        kani::assume(n <= $n);
        (buf, n)
    }};
}

/// ServerDHParams: three u16-length-prefixed fields.
#[kani::proof]
#[kani::unwind(4)]
fn c13_dh_params() {
    let (buf, n) = sym_input!(12);
    let b = &buf[..n];
    let r = tp::parse_dh_params(b);
    let mut rd = Rd::new(b);
    let p = rd.lp16();
    let g = rd.lp16();
    let ys = rd.lp16();
    if rd.short {
        vassert!(r.is_err(), "C13.dh.cut_off.no_value");
        vcover!(n >= 6, "C13.dh.cover.cut_off_with_all_length_fields_present");
    } else {
        vassert!(r.is_ok(), "C13.dh.wellformed.accepted");
        if let Ok((rem, v)) = &r {
            vassert!(span_is(b, v.dh_p, p), "C13.dh.p_exact");
            vassert!(span_is(b, v.dh_g, g), "C13.dh.g_exact");
            vassert!(span_is(b, v.dh_ys, ys), "C13.dh.ys_exact");
            vassert!(is_sub(b, rem, rd.pos, n - rd.pos), "C13.dh.consumes_exactly_own_encoding");
            vcover!(p.1 > 0 && g.1 > 0 && ys.1 > 0 && rem.len() > 0, "C13.dh.cover.all_fields_nonempty_and_rest");
        }
    }
}

/// Reference decoder for ECParameters. Returns None when the curve type is unsupported.
struct EcRef {
    named: Option<u16>,
    prime_p: (usize, usize),
    a: (usize, usize),
    b: (usize, usize),
    base: (usize, usize),
    order: (usize, usize),
    cofactor: (usize, usize),
}
fn ref_ec_parameters(rd: &mut Rd) -> Option<(u8, EcRef)> {
    let z = (0, 0);
    let mut e = EcRef { named: None, prime_p: z, a: z, b: z, base: z, order: z, cofactor: z };
    let ct = rd.u8();
    if rd.short {
        return Some((ct, e));
    }
    match ct {
        1 => {
            e.prime_p = rd.lp8();
            e.a = rd.lp8();
            e.b = rd.lp8();
            e.base = rd.lp8();
            e.order = rd.lp8();
            e.cofactor = rd.lp8();
        }
        3 => {
            e.named = Some(rd.u16());
        }
        _ => return None,
    }
    Some((ct, e))
}

fn check_ec_value(b: &[u8], v: &tp::ECParameters, ct: u8, e: &EcRef) {
    vassert!(v.curve_type.0 == ct, "C13.ec.curve_type_exact");
    match (&v.params_content, ct) {
        (tp::ECParametersContent::NamedGroup(g), 3) => {
            vassert!(Some(g.0) == e.named, "C13.ec.named_group_exact");
        }
        (tp::ECParametersContent::ExplicitPrime(c), 1) => {
            vassert!(span_is(b, c.prime_p, e.prime_p), "C13.ec.prime_p_exact");
            vassert!(span_is(b, c.curve.a, e.a), "C13.ec.curve_a_exact");
            vassert!(span_is(b, c.curve.b, e.b), "C13.ec.curve_b_exact");
            vassert!(span_is(b, c.base.point, e.base), "C13.ec.base_exact");
            vassert!(span_is(b, c.order, e.order), "C13.ec.order_exact");
            vassert!(span_is(b, c.cofactor, e.cofactor), "C13.ec.cofactor_exact");
        }
        _ => vassert!(false, "C13.ec.form_matches_curve_type"),
    }
}

#[kani::proof]
#[kani::unwind(4)]
fn c13_ec_parameters() {
    let (buf, n) = sym_input!(14);
    let b = &buf[..n];
    let r = tp::parse_ec_parameters(b);
    let mut rd = Rd::new(b);
    match ref_ec_parameters(&mut rd) {
        None => {
            vassert!(class(&r) == Class::Error, "C13.ec.unsupported_curve_type.rejected");
            vcover!(b[0] == 2, "C13.ec.cover.explicit_char2_rejected");
            vcover!(b[0] == 0 || b[0] > 3, "C13.ec.cover.other_curve_type_rejected");
        }
        Some((ct, e)) => {
            if rd.short {
                vassert!(r.is_err(), "C13.ec.cut_off.no_value");
            } else {
                vassert!(r.is_ok(), "C13.ec.wellformed.accepted");
                if let Ok((rem, v)) = &r {
                    check_ec_value(b, v, ct, &e);
                    vassert!(is_sub(b, rem, rd.pos, n - rd.pos), "C13.ec.consumes_exactly_own_encoding");
                    vcover!(ct == 3 && rem.len() > 0, "C13.ec.cover.named_curve_and_rest");
                    vcover!(ct == 1 && e.prime_p.1 > 0 && e.cofactor.1 > 0, "C13.ec.cover.explicit_prime");
                }
            }
        }
    }
}

#[kani::proof]
#[kani::unwind(4)]
fn c13_ecdh_params() {
    let (buf, n) = sym_input!(12);
    let b = &buf[..n];
    let r = tp::parse_ecdh_params(b);
    let mut rd = Rd::new(b);
    match ref_ec_parameters(&mut rd) {
        None => {
            vassert!(class(&r) == Class::Error, "C13.ecdh.unsupported_curve_type.rejected");
        }
        Some((ct, e)) => {
            let public = rd.lp8();
            if rd.short {
                vassert!(r.is_err(), "C13.ecdh.cut_off.no_value");
            } else {
                vassert!(r.is_ok(), "C13.ecdh.wellformed.accepted");
                if let Ok((rem, v)) = &r {
                    check_ec_value(b, &v.curve_params, ct, &e);
                    vassert!(span_is(b, v.public.point, public), "C13.ecdh.public_point_exact");
                    vassert!(is_sub(b, rem, rd.pos, n - rd.pos), "C13.ecdh.consumes_exactly_own_encoding");
                    vcover!(ct == 3 && public.1 > 1 && rem.len() > 0, "C13.ecdh.cover.named_curve_point_and_rest");
                    vcover!(ct == 1, "C13.ecdh.cover.explicit_prime");
                }
            }
        }
    }
}

#[kani::proof]
#[kani::unwind(4)]
fn c13_ecpoint() {
    let (buf, n) = sym_input!(6);
    let b = &buf[..n];
    let r = tp::ECPoint::parse(b);
    let mut rd = Rd::new(b);
    let pt = rd.lp8();
    if rd.short {
        vassert!(r.is_err(), "C13.ecpoint.cut_off.no_value");
    } else {
        vassert!(r.is_ok(), "C13.ecpoint.wellformed.accepted");
        if let Ok((rem, v)) = &r {
            vassert!(span_is(b, v.point, pt), "C13.ecpoint.point_exact");
            vassert!(is_sub(b, rem, rd.pos, n - rd.pos), "C13.ecpoint.consumes_exactly_own_encoding");
            vcover!(pt.1 > 0 && rem.len() > 0, "C13.ecpoint.cover.point_and_rest");
        }
    }
}

fn check_signed(b: &[u8], start: usize, r: Option<(&[u8], &tp::DigitallySigned)>, new_form: bool, lbl_new: bool) {
    let mut rd = Rd { b, pos: start, short: false };
    let (h, s) = if new_form { (rd.u8(), rd.u8()) } else { (0, 0) };
    let data = rd.lp16();
    if rd.short {
        vassert!(r.is_none(), "C13.signed.cut_off.no_value");
    } else {
        vassert!(r.is_some(), "C13.signed.wellformed.accepted");
        if let Some((rem, v)) = r {
            if new_form {
                match &v.alg {
                    Some(a) => {
                        vassert!(a.hash.0 == h, "C13.signed.hash_algorithm_exact");
                        vassert!(a.sign.0 == s, "C13.signed.signature_algorithm_exact");
                    }
                    None => vassert!(false, "C13.signed.new_form_carries_algorithm_pair"),
                }
            } else {
                vassert!(v.alg.is_none(), "C13.signed.legacy_form_has_no_algorithm_pair");
            }
            vassert!(span_is(b, v.data, data), "C13.signed.signature_bytes_exact");
            vassert!(is_sub(b, rem, rd.pos, b.len() - rd.pos), "C13.signed.consumes_exactly_own_encoding");
            vcover!(data.1 > 0 && rem.len() > 0, "C13.signed.cover.signature_and_rest");
        }
    }
    let _ = lbl_new;
}

#[kani::proof]
#[kani::unwind(4)]
fn c13_digitally_signed() {
    let (buf, n) = sym_input!(8);
    let b = &buf[..n];
    let r = tp::parse_digitally_signed(b);
    check_signed(b, 0, r.as_ref().ok().map(|(rem, v)| (*rem, v)), true, true);
}

#[kani::proof]
#[kani::unwind(4)]
fn c13_digitally_signed_old() {
    let (buf, n) = sym_input!(6);
    let b = &buf[..n];
    let r = tp::parse_digitally_signed_old(b);
    check_signed(b, 0, r.as_ref().ok().map(|(rem, v)| (*rem, v)), false, false);
}

/// parse_content_and_signature::<parse_dh_params>: content value, then the signature form selected by `ext`.
#[kani::proof]
#[kani::unwind(4)]
fn c13_content_and_signature_dh() {
    let (buf, n) = sym_input!(12);
    let b = &buf[..n];
    let ext: bool = kani::any();
    let r = tp::parse_content_and_signature(b, tp::parse_dh_params, ext);
    let mut rd = Rd::new(b);
    let p = rd.lp16();
    let g = rd.lp16();
    let ys = rd.lp16();
    if rd.short {
        vassert!(r.is_err(), "C13.cas.dh.content_cut_off.no_value");
    } else {
        if let Ok((_, (v, _))) = &r {
            vassert!(span_is(b, v.dh_p, p) && span_is(b, v.dh_g, g) && span_is(b, v.dh_ys, ys), "C13.cas.dh.content_value_exact");
        }
        check_signed(b, rd.pos, r.as_ref().ok().map(|(rem, (_, s))| (*rem, s)), ext, ext);
        vcover!(r.is_ok() && ext, "C13.cas.dh.cover.ok_with_algorithm_pair");
        vcover!(r.is_ok() && !ext, "C13.cas.dh.cover.ok_legacy");
    }
}

#[kani::proof]
#[kani::unwind(4)]
fn c13_content_and_signature_ecdh() {
    let (buf, n) = sym_input!(11);
    let b = &buf[..n];
    let ext: bool = kani::any();
    let r = tp::parse_content_and_signature(b, tp::parse_ecdh_params, ext);
    let mut rd = Rd::new(b);
    match ref_ec_parameters(&mut rd) {
        None => vassert!(r.is_err(), "C13.cas.ecdh.unsupported_curve_type.rejected"),
        Some((ct, e)) => {
            let public = rd.lp8();
            if rd.short {
                vassert!(r.is_err(), "C13.cas.ecdh.content_cut_off.no_value");
            } else {
                if let Ok((_, (v, _))) = &r {
                    check_ec_value(b, &v.curve_params, ct, &e);
                    vassert!(span_is(b, v.public.point, public), "C13.cas.ecdh.public_point_exact");
                }
                check_signed(b, rd.pos, r.as_ref().ok().map(|(rem, (_, s))| (*rem, s)), ext, ext);
                vcover!(r.is_ok() && ext && ct == 3, "C13.cas.ecdh.cover.ok_with_algorithm_pair");
                vcover!(r.is_ok() && !ext, "C13.cas.ecdh.cover.ok_legacy");
            }
        }
    }
}

/// Vacuity guard (thorough tier): must FAIL.
#[cfg(feature = "thorough")]
#[kani::proof]
#[kani::unwind(4)]
fn c13_false_twin() {
    let (buf, n) = sym_input!(8);
    let b = &buf[..n];
    let r = tp::parse_digitally_signed(b);
    check_signed(b, 0, r.as_ref().ok().map(|(rem, v)| (*rem, v)), true, true);
    vassert!(false, "C13.false_twin");
}

