//! C01 — parsing never panics, hangs or over-allocates (additional harnesses; the differential
//! harnesses of the other properties run with the same Kani default checks and are part of this check).
use crate::c17::Sink;
use crate::util::*;
use crate::{vassert, vcover};
use alloc::vec::Vec;
use core::fmt::Write;
use core::mem::ManuallyDrop;
use tls_parser as tp;

/// parse_tls_message_heartbeat with an arbitrary `tls_plaintext_len` argument.
#[kani::proof]
#[kani::unwind(5)]
fn c01_heartbeat_any_len_argument() {
    let buf: [u8; 7] = kani::any();
    let n: usize = kani::any();
    kani::assume(n <= 7);
    let l: u16 = kani::any();
    let r = ManuallyDrop::new(tp::parse_tls_message_heartbeat(&buf[..n], l));
    if let Ok((rem, v)) = &*r {
        vassert!(v.len() == 1 && v.capacity() <= 4, "C01.heap.heartbeat_result_is_one_message");
        vassert!(inside(&buf[..], rem, n), "C01.heartbeat.remainder_inside_input");
    }
    vcover!(r.is_ok(), "C01.cover.heartbeat_ok");
    vcover!(r.is_err(), "C01.cover.heartbeat_err");
}

/// Result containers stay within a linear bound of the consumed input (ClientHello lists, certificate chain).
#[kani::proof]
#[kani::unwind(14)]
fn c01_heap_client_hello_lists() {
    let mut buf: [u8; 2 + 32 + 1 + 2 + 6 + 1 + 2] = kani::any();
    buf[34] = 0;
    let r = ManuallyDrop::new(tp::parse_tls_handshake_client_hello(&buf[..]));
    if let Ok((_, ch)) = &*r {
        vassert!(ch.ciphers.len() * 2 <= 44 && ch.ciphers.capacity() <= 22, "C01.heap.cipher_list_bounded_by_input_length");
        vassert!(ch.comp.len() <= 44 && ch.comp.capacity() <= 44, "C01.heap.compression_list_bounded_by_input_length");
        vcover!(ch.ciphers.len() == 3, "C01.cover.three_ciphers");
    }
    vcover!(r.is_err(), "C01.cover.client_hello_err");
}

#[kani::proof]
#[kani::unwind(6)]
fn c01_heap_certificate_chain() {
    let buf: [u8; 11] = kani::any();
    let n: usize = kani::any();
    kani::assume(n <= 11);
    let r = ManuallyDrop::new(tp::parse_tls_handshake_msg_certificate(&buf[..n]));
    if let Ok((_, tp::TlsMessageHandshake::Certificate(c))) = &*r {
        vassert!(c.cert_chain.len() * 3 <= n, "C01.heap.certificate_count_bounded_by_input_length");
        vassert!(c.cert_chain.capacity() <= 4 || c.cert_chain.capacity() <= 2 * c.cert_chain.len(), "C01.heap.certificate_chain_capacity_linear");
        vcover!(c.cert_chain.len() == 2, "C01.cover.two_certificates");
    }
}

/// Sink that only counts bytes (no loop): the text itself is not examined by these harnesses.
pub struct CountSink {
    pub len: usize,
}
impl Write for CountSink {
    fn write_str(&mut self, s: &str) -> core::fmt::Result {
        self.len += s.len();
        Ok(())
    }
}

/// Display and Debug of every code-point newtype return for every value of the domain.
macro_rules! fmt8 {
    ($name:ident, [$($t:path),*]) => {
        #[kani::proof]
        #[kani::unwind(12)]
        fn $name() {
            let v: u8 = kani::any();
            $(
                let mut s = CountSink { len: 0 };
                let _ = write!(s, "{}", $t(v));
                vassert!(s.len > 0, "C01.fmt.display_returns_text");
                let mut s = CountSink { len: 0 };
                let _ = write!(s, "{:?}", $t(v));
                vassert!(s.len > 0, "C01.fmt.debug_returns_text");
            )*
            vcover!(v == 0xff, "C01.cover.fmt_ff");
        }
    };
}
macro_rules! fmt16 {
    ($name:ident, [$($t:path),*]) => {
        #[kani::proof]
        #[kani::unwind(12)]
        fn $name() {
            let v: u16 = kani::any();
            $(
                let mut s = CountSink { len: 0 };
                let _ = write!(s, "{}", $t(v));
                vassert!(s.len > 0, "C01.fmt.display_returns_text");
                let mut s = CountSink { len: 0 };
                let _ = write!(s, "{:?}", $t(v));
                vassert!(s.len > 0, "C01.fmt.debug_returns_text");
            )*
            vcover!(v == 0xffff, "C01.cover.fmt_ffff");
        }
    };
}
fmt8!(c01_fmt_u8_a, [tp::TlsRecordType, tp::TlsHandshakeType, tp::TlsHeartbeatMessageType, tp::TlsCompressionID]);
fmt8!(c01_fmt_u8_b, [tp::TlsAlertSeverity, tp::TlsAlertDescription, tp::SNIType]);
fmt8!(c01_fmt_u8_c, [tp::HashAlgorithm, tp::SignAlgorithm, tp::CertificateStatusType, tp::CtVersion]);
fmt16!(c01_fmt_u16_a, [tp::TlsVersion, tp::NamedGroup]);
#[kani::proof]
#[kani::unwind(12)]
fn c01_fmt_display_only() {
    let v: u8 = kani::any();
    let mut s = CountSink { len: 0 };
    let _ = write!(s, "{}", tp::ECCurveType(v));
    vassert!(s.len > 0, "C01.fmt.display_returns_text");
    vcover!(v == 2, "C01.cover.fmt_curve_type");
}
fmt16!(c01_fmt_u16_b, [tp::TlsExtensionType, tp::SignatureScheme]);

/// Debug of composite values built from symbolic scalars and short slices returns.
#[kani::proof]
#[kani::unwind(12)]
fn c01_debug_record_header_alert_signed() {
    let h = tp::TlsRecordHeader { record_type: tp::TlsRecordType(kani::any()), version: tp::TlsVersion(kani::any()), len: kani::any() };
    let mut s = CountSink { len: 0 };
    let _ = write!(s, "{:?}", h);
    vassert!(s.len > 0, "C01.fmt.record_header_debug_returns");
    let a = tp::TlsMessageAlert { severity: tp::TlsAlertSeverity(kani::any()), code: tp::TlsAlertDescription(kani::any()) };
    let mut s = CountSink { len: 0 };
    let _ = write!(s, "{:?}", a);
    vassert!(s.len > 0, "C01.fmt.alert_debug_returns");
    vcover!(true, "C01.cover.debug_small");
}

/// Debug of every slice-carrying extension variant on short (0..=2 byte) data returns.
macro_rules! debug_ext {
    ($name:ident, |$d:ident| $x:expr) => {
        #[kani::proof]
        #[kani::unwind(12)]
        fn $name() {
            let pool: [u8; 2] = kani::any();
            let n: usize = 2; // concrete length: a symbolic one makes the per-byte hex formatting loop explode
            let $d = &pool[..n];
            let x = ManuallyDrop::new($x);
            let mut s = CountSink { len: 0 };
            let _ = write!(s, "{:?}", &*x);
            vassert!(s.len > 0, "C01.fmt.extension_debug_returns");
                        vcover!(n == 2, "C01.cover.debug_two_bytes");
        }
    };
}
debug_ext!(c01_debug_ext_pre_shared_key, |d| tp::TlsExtension::PreSharedKey(d));
debug_ext!(c01_debug_ext_key_share_old, |d| tp::TlsExtension::KeyShareOld(d));
debug_ext!(c01_debug_ext_cookie, |d| tp::TlsExtension::Cookie(d));
debug_ext!(c01_debug_ext_session_ticket, |d| tp::TlsExtension::SessionTicket(d));
debug_ext!(c01_debug_ext_padding, |d| tp::TlsExtension::Padding(d));
debug_ext!(c01_debug_ext_renegotiation_info, |d| tp::TlsExtension::RenegotiationInfo(d));
debug_ext!(c01_debug_ext_ec_point_formats, |d| tp::TlsExtension::EcPointFormats(d));
debug_ext!(c01_debug_ext_status_request, |d| tp::TlsExtension::StatusRequest(Some((tp::CertificateStatusType(1), d))));
debug_ext!(c01_debug_ext_sct, |d| tp::TlsExtension::SignedCertificateTimestamp(Some(d)));
debug_ext!(c01_debug_ext_unknown, |d| tp::TlsExtension::Unknown(tp::TlsExtensionType(kani::any()), d));
debug_ext!(c01_debug_ext_esni, |d| tp::TlsExtension::EncryptedServerName { ciphersuite: tp::TlsCipherSuiteID(0x1301), group: tp::NamedGroup(kani::any()), key_share: d, record_digest: d, encrypted_sni: d });

/// Debug of handshake structures with short slices returns.
macro_rules! debug_val {
    ($name:ident, $unw:expr, |$d:ident| $x:expr) => {
        #[kani::proof]
        #[kani::unwind($unw)]
        fn $name() {
            let pool: [u8; 2] = kani::any();
            let n: usize = 2; // concrete length: a symbolic one makes the per-byte hex formatting loop explode
            let $d = &pool[..n];
            let x = ManuallyDrop::new($x);
            let mut s = CountSink { len: 0 };
            let _ = write!(s, "{:?}", &*x);
            vassert!(s.len > 0, "C01.fmt.value_debug_returns");
            vcover!(n == 2, "C01.cover.debug_value");
        }
    };
}
debug_val!(c01_debug_new_session_ticket, 12, |d| tp::TlsNewSessionTicketContent { ticket_lifetime_hint: kani::any(), ticket: d });
debug_val!(c01_debug_raw_certificate, 12, |d| tp::RawCertificate { data: d });
debug_val!(c01_debug_client_key_exchange, 12, |d| tp::TlsClientKeyExchangeContents::Ecdh(tp::ECPoint { point: d }));
debug_val!(c01_debug_digitally_signed, 12, |d| tp::DigitallySigned { alg: Some(tp::SignatureAndHashAlgorithm { hash: tp::HashAlgorithm(kani::any()), sign: tp::SignAlgorithm(kani::any()) }), data: d });
debug_val!(c01_debug_heartbeat, 12, |d| tp::TlsMessage::Heartbeat(tp::TlsMessageHeartbeat { heartbeat_type: tp::TlsHeartbeatMessageType(kani::any()), payload_len: kani::any(), payload: d }));

// ------------------------------------------------------------------------------------------------
// Heap clause, per allocation: `alloc::alloc::alloc` / `realloc` are replaced by versions that assert the
// requested size against a linear function of the input length (64 bytes per input byte + 1 KiB) and then
// allocate (zeroed). A length *field* that drives an allocation before it is validated breaks this.
static mut ALLOC_LIMIT: usize = usize::MAX;

unsafe fn checked_alloc(layout: core::alloc::Layout) -> *mut u8 {
    vassert!(layout.size() <= ALLOC_LIMIT, "C01.heap.allocation_bounded_by_linear_function_of_input_length");
    vcover!(layout.size() > 0, "C01.cover.allocation_observed");
    alloc::alloc::alloc_zeroed(layout)
}
unsafe fn checked_realloc(ptr: *mut u8, layout: core::alloc::Layout, new_size: usize) -> *mut u8 {
    vassert!(new_size <= ALLOC_LIMIT, "C01.heap.allocation_bounded_by_linear_function_of_input_length");
    let new_layout = core::alloc::Layout::from_size_align_unchecked(new_size, layout.align());
    let p = alloc::alloc::alloc_zeroed(new_layout);
    if !p.is_null() {
        core::ptr::copy_nonoverlapping(ptr, p, if layout.size() < new_size { layout.size() } else { new_size });
        alloc::alloc::dealloc(ptr, layout);
    }
    p
}

macro_rules! alloc_bound {
    ($name:ident, $n:expr, $unw:expr, |$b:ident| $call:expr) => {
        #[kani::proof]
        #[kani::unwind($unw)]
        #[kani::stub(alloc::alloc::alloc, checked_alloc)]
        #[kani::stub(alloc::alloc::realloc, checked_realloc)]
        fn $name() {
            let buf: [u8; $n] = kani::any();
            let n: usize = kani::any();
            kani::assume(n <= $n);
            unsafe {
                ALLOC_LIMIT = 64 * $n + 1024;
            }
            let $b = &buf[..n];
            let r = ManuallyDrop::new($call);
            vcover!(r.is_ok(), "C01.cover.alloc_bound_ok");
            vcover!(r.is_err(), "C01.cover.alloc_bound_err");
        }
    };
}
alloc_bound!(c01_alloc_bound_certificate, 11, 6, |b| tp::parse_tls_handshake_msg_certificate(b));
alloc_bound!(c01_alloc_bound_sni, 10, 7, |b| tp::parse_tls_extension_sni_content(b));
alloc_bound!(c01_alloc_bound_sct_list, 8, 10, |b| tp::parse_ct_signed_certificate_timestamp_list(b));
alloc_bound!(c01_alloc_bound_certificate_request, 7, 9, |b| tp::parse_tls_handshake_certificaterequest(b));
