//! Data-derived sources. `ciphers_ref.rs` here is a placeholder; the driver regenerates it from
//! /repo/scripts/tls-ciphersuites.txt into the scratch copy of this crate on every run.
use tls_parser::{TlsCipherAu, TlsCipherEnc, TlsCipherEncMode, TlsCipherKx, TlsCipherMac, TlsPRF};

pub struct Row {
    pub id: u16,
    pub name: &'static str,
    pub kx: TlsCipherKx,
    pub au: TlsCipherAu,
    pub enc: TlsCipherEnc,
    pub mode: TlsCipherEncMode,
    pub enc_size: u16,
    pub mac: TlsCipherMac,
    pub mac_size: u16,
    pub prf: TlsPRF,
    /// what the algorithm tokens of the IANA name state unambiguously (None: the name does not say)
    pub n_enc: Option<TlsCipherEnc>,
    pub n_mode: Option<TlsCipherEncMode>,
    pub n_bits: Option<u16>,
    pub n_mac: Option<TlsCipherMac>,
}

pub mod ciphers_ref;
