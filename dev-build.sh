#!/bin/sh
# dev helper: compile-check the harness crate for a feature set.  usage: dev-build.sh <features>
D=/tmp/devh
mkdir -p $D
rsync -a --delete --exclude target --exclude Cargo.lock /verif/harness/ $D/h/
cp /repo/Cargo.lock $D/h/Cargo.lock
python3 -c "
import sys; sys.path.insert(0,'/verif/driver'); import gen_sources; gen_sources.generate('/repo','/verif','$D/h',0)"
cd $D/h
export CARGO_NET_OFFLINE=true RUSTFLAGS="--cfg tls_parser_verif"
cargo kani --only-codegen --target-dir $D/t-build -Z stubbing --features "$1" 2>&1 | grep -a -A12 "^error" | head -${2:-80}
