#!/bin/sh
# Offline setup: nothing is pre-built (every check rebuilds from /repo's working tree); only check the tools.
set -e
cd "$(dirname "$0")"
command -v cargo >/dev/null
cargo kani --version >/dev/null
command -v cbmc >/dev/null
command -v z3 >/dev/null
python3 -c "import json,sys; json.load(open('MANIFEST.json'))"
mkdir -p evidence
echo "setup ok"
